"""CrossHair second opinion on the smallest kernel (K04a with len(s) <= 1): an independent symbolic engine must not find a
counterexample to the tokenizer round trip.  Run by ./check C04 --tier thorough (disagreement = harness error, exit 3)."""
import sys

sys.path.insert(0, "/repo")
from vsg import tokens  # noqa: E402


def roundtrip(s: str) -> str:
    """
    pre: len(s) <= 1
    pre: chr(10) not in s and chr(13) not in s
    post: __return__ == s
    """
    return "".join(tokens.create(s))
