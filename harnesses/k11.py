"""C11 - code tags: real vhdlFile.set_code_tags, code_tags.*, parser.item.set_code_tags/has_code_tag,
violation.has_code_tag, rule.add_violation against a reference interpreter of docs/code_tags.rst."""
from sx import core
from sx.core import And, Or, Not, Implies, Iff, Eq, f_of
from sx.runner import Harness, register

import sys

import vsg.vhdlFile.vhdlFile  # noqa: F401
from vsg import parser, rule, violation
from vsg.vhdlFile.extract import tokens as xtokens

from .k13 import _sig

VF = sys.modules["vsg.vhdlFile.vhdlFile"]

KINDS = ["code", "off", "off1", "off2", "on", "on1", "nl1", "nl2", "comment", "blank"]
RULES = ["A", "B", "C"]


class TagRule(rule.Rule):
    def __init__(self, uid):
        super().__init__()
        self.unique_id = uid
        self.name = uid
        self.identifier = ""


def _id(eng, name):
    """a symbolic rule id: one character out of A, B (C is never named by a tag, so it is the untagged rule)"""
    return eng.str(name, 1, alphabet="AB")


@register
class K11a(Harness):
    name = "K11a"
    prop = "C11"
    title = "tag state machine: a violation on a code line is kept iff the reference interpreter of docs/code_tags.rst says the rule is enabled there"
    functions = ("vsg.vhdlFile.vhdlFile", "vsg.vhdlFile.code_tags", "vsg.parser", "vsg.violation", "vsg.rule")
    stubs = ("the token list is built directly from parser.comment / parser.todo / parser.carriage_return / parser.blank_line objects (no VHDL parse)",)
    bounds = "every sequence of L lines (L<=4 quick, <=5 thorough) over {code, vsg_off, vsg_off id, vsg_off id id, vsg_on, vsg_on id, vsg_disable_next_line id, ... id id, plain comment, blank}; ids symbolic over {A,B}; rules A, B and an untagged rule C; optional ': remark'"
    outside = "longer interleavings; an id-carrying vsg_on while a bare vsg_off is active (left unspecified by the documentation) is skipped"

    def params(self, tier):
        return [{"L": n} for n in ([1, 2, 3, 4] if tier == "quick" else [1, 2, 3, 4, 5])]

    def shard_target(self, p):
        return 200

    def run(self, eng, p):
        L = p["L"]
        toks = []
        # reference state (formulas)
        all_off = False
        off = {r: False for r in RULES}
        nxt = {r: False for r in RULES}
        expect = []  # per code line: {rule: disabled formula}
        code_tokens = []
        code_line = []
        kinds_seen = []
        remark = eng.bool("remark")
        for i in range(L):
            k = KINDS[eng.choose("kind%d" % i, len(KINDS))]
            kinds_seen.append(k)
            tail = " : because" if remark else ""
            if k == "code":
                t = parser.todo("x")
                toks += [t, parser.carriage_return()]
                code_tokens.append(t)
                code_line.append(i)
                expect.append({r: Or(all_off, off[r], nxt[r]) for r in RULES})
                nxt = {r: False for r in RULES}
                continue
            if k == "blank":
                toks += [parser.blank_line(), parser.carriage_return()]
                nxt = {r: False for r in RULES}
                continue
            if k == "comment":
                toks += [parser.comment("-- plain"), parser.carriage_return()]
                nxt = {r: False for r in RULES}
                continue
            ids = []
            if k.endswith("1") or k.endswith("2"):
                ids.append(_id(eng, "id%d_0" % i))
            if k.endswith("2"):
                ids.append(_id(eng, "id%d_1" % i))
            kw = {"of": "vsg_off", "on": "vsg_on", "nl": "vsg_disable_next_line"}[k[:2]]
            text = "-- " + kw
            for s in ids:
                text = text + " " + s
            text = text + tail
            toks += [parser.comment(text), parser.carriage_return()]
            named = {r: Or([core.Eq(s, r) for s in ids]) for r in RULES}
            if k[:2] == "of":
                nxt = {r: False for r in RULES}
                if ids:
                    off = {r: Or(off[r], named[r]) for r in RULES}
                else:
                    all_off = True
                    off = {r: False for r in RULES}
            elif k[:2] == "on":
                nxt = {r: False for r in RULES}
                if ids:
                    if all_off is not False:
                        return True  # unspecified by the documentation: not asserted
                    off = {r: And(off[r], Not(named[r])) for r in RULES}
                else:
                    all_off = False
                    off = {r: False for r in RULES}
            else:
                nxt = {r: Or(nxt[r], named[r]) for r in RULES}
        if not code_tokens:
            return True
        VF.set_code_tags(toks)
        clauses = []
        for j, t in enumerate(code_tokens):
            idx = toks.index(t)
            for r in RULES:
                oRule = TagRule(r)
                oToi = xtokens.New(idx, 1 + sum(1 for x in toks[:idx] if isinstance(x, parser.carriage_return)), [t])
                oRule.add_violation(violation.New(oToi.get_line_number(), oToi, "s"))
                kept = len(oRule.violations) == 1
                clauses.append(("line%d_rule%s" % (j, r), Iff(kept, Not(expect[j][r]))))
        # a violation whose region spans several code lines (everything between them included) is suppressed as soon as
        # one of its code lines is tagged for the rule - and reported only if none is
        for a in range(len(code_tokens)):
            for b in range(a + 1, len(code_tokens)):
                ia, ib = toks.index(code_tokens[a]), toks.index(code_tokens[b])
                for r in RULES:
                    oRule = TagRule(r)
                    oToi = xtokens.New(ia, 1 + sum(1 for x in toks[:ia] if isinstance(x, parser.carriage_return)), toks[ia:ib + 1])
                    oRule.add_violation(violation.New(oToi.get_line_number(), oToi, "s"))
                    kept = len(oRule.violations) == 1
                    any_tagged = Or([expect[k][r] for k in range(a, b + 1)])
                    # "wholly outside tagged lines": no tag comment line sits inside the region either
                    no_tag_line_inside = all(kinds_seen[i] in ("code", "comment", "blank") for i in range(code_line[a], code_line[b] + 1))
                    if no_tag_line_inside:
                        clauses.append(("span%d_%d_rule%s" % (a, b, r), Implies(Not(any_tagged), kept)))
                    clauses.append(("span_suppressed%d_%d_rule%s" % (a, b, r), Implies(any_tagged, Not(kept))))
        return clauses

    def describe(self, values, p):
        out = []
        for i in range(p["L"]):
            k = KINDS[values.get("kind%d" % i, 0)]
            ids = [chr(values.get("id%d_%d[0]" % (i, n), 65)) for n in range(2) if ("id%d_%d[0]" % (i, n)) in values]
            if k[-1] == "1":
                ids = ids[:1]
            elif k[-1] != "2":
                ids = []
            out.append((k.rstrip("12") + " " + " ".join(ids)).strip())
        return {"lines": out, "remark": values.get("remark")}

    def signature(self, values, p, detail):
        if detail.get("kind") == "exception":
            return _sig(values, p, detail)
        # shape: is a bare vsg_off still active when an id-carrying off / next-line tag arrives?
        lines = self.describe(values, p)["lines"]
        alloff = False
        shape = "other"
        for ln in lines:
            w = ln.split()
            if w[0] == "off" and len(w) == 1:
                alloff = True
            elif w[0] == "on" and len(w) == 1:
                alloff = False
            elif w[0] in ("off", "nl") and len(w) > 1 and alloff:
                shape = "bare_off_then_id_tag"
        return "vc:" + shape


ALPHABET = " \t:ab_1"
WORDS = ["a", "b", "ab", "a1", "_", "1"]


def _ws(c):
    return Or(core._eqc(c, 32), core._eqc(c, 9))


@register
class K11b(Harness):
    name = "K11b"
    prop = "C11"
    title = "tag text parsing: the ids a tag names are the blank-separated words between the keyword and an optional ':' remark"
    functions = ("vsg.vhdlFile.vhdlFile", "vsg.vhdlFile.code_tags", "vsg.parser")
    stubs = K11a.stubs
    bounds = "tag comment = '-- vsg_off' / '-- vsg_disable_next_line' + every tail of N<=3 (quick) / 4 (thorough) characters over {space, tab, ':', a, b, _, 1}; tail empty or starting with blank or ':'; candidate rule ids a, b, ab, a1, _, 1"
    outside = "tails that glue characters onto the keyword (VSG matches the keyword as a prefix; noted in DESIGN.md, not asserted)"

    def params(self, tier):
        ns = [0, 1, 2, 3] if tier == "quick" else [0, 1, 2, 3, 4]
        return [{"N": n, "kw": kw} for n in ns for kw in ("vsg_off", "vsg_disable_next_line")]

    def run(self, eng, p):
        N = p["N"]
        tail = eng.str("tail", N, alphabet=ALPHABET)
        cps = core._cps(tail) if N else []
        if N:
            eng.assume(Or(_ws(cps[0]), core._eqc(cps[0], 58)))
        text = "-- " + p["kw"] + tail
        c = parser.comment(text)
        t = parser.todo("x")
        toks = [c, parser.carriage_return(), t, parser.carriage_return()]
        VF.set_code_tags(toks)
        # reference
        colon_before = [False]
        for i in range(N):
            colon_before.append(Or(colon_before[-1], core._eqc(cps[i], 58)))
        has_word = Or([And(Not(colon_before[i + 1]), Not(_ws(cps[i]))) for i in range(N)])
        clauses = []
        for w in WORDS:
            n = len(w)
            occ = []
            for i in range(1, N - n + 1):
                j = i + n
                match = And([core._eqc(cps[i + k], ord(w[k])) for k in range(n)])
                left = _ws(cps[i - 1])
                right = True if j == N else Or(_ws(cps[j]), core._eqc(cps[j], 58))
                occ.append(And(match, left, right, Not(colon_before[i])))
            listed = Or(occ)
            if p["kw"] == "vsg_off":
                want = Or(Not(has_word), listed)
            else:
                want = listed
            got = t.has_code_tag(w)
            clauses.append(("id_%s" % w, Iff(got, want)))
        return clauses

    def describe(self, values, p):
        return {"comment": "-- " + p["kw"] + "".join(chr(values.get("tail[%d]" % i, 32)) for i in range(p["N"]))}

    signature = staticmethod(_sig)
