"""C19 kernel - tiny programs: every sequence of k words from a structural vocabulary through the real vhdlFile constructor
(tokenizer, line classifiers, design_file.tokenize and all post passes): it either returns or raises ClassifyError."""
import sys

from sx import core
from sx.runner import Harness, register

import vsg.vhdlFile.vhdlFile  # noqa: F401
from vsg import exceptions
from vsg import vhdlFile as vhdlFile_pkg

from .k13 import _sig

VOCAB = ["library", "use", "entity", "architecture", "package", "body", "is", "of", "begin", "end", "process", "signal", "port", "generic", "map",
         "component", "if", "then", "case", "when", "for", "generate", "function", "return", "type", "constant", "id", "ieee", "(", ")", ";", ":", ",", "<=", ":=", "=>", ".", "all", "'1'", "--c"]
SMALL = ["library", "use", "entity", "architecture", "is", "of", "begin", "end", "process", "signal", "port", "component", "if", "id", "(", ")", ";", ":", "<=", "."]


@register
class K19b(Harness):
    name = "K19b"
    prop = "C19"
    title = "a file of k vocabulary words is either accepted or rejected with ClassifyError - never another exception"
    functions = ("vsg.vhdlFile", "vsg.tokens", "vsg.parser")
    stubs = ()
    bounds = "quick: every sequence of k<=2 words over a 40-word vocabulary and k=3 over a 20-word one, words separated by one blank, on one line or one word per line; thorough: k=3 over 40 words, k=4 over 20 words (structural choices forked by the engine)"
    outside = "longer programs; other vocabularies"
    allowed_exceptions = (exceptions.ClassifyError,)
    exception_props = ("C19",)

    def params(self, tier):
        if tier == "quick":
            return [{"k": 1, "v": "full"}, {"k": 2, "v": "full"}, {"k": 3, "v": "tiny"}]
        return [{"k": 1, "v": "full"}, {"k": 2, "v": "full"}, {"k": 3, "v": "full"}, {"k": 4, "v": "small"}]

    def shard_target(self, p):
        return 128

    def run(self, eng, p):
        vocab = VOCAB if p["v"] == "full" else (SMALL if p["v"] == "small" else SMALL[:13])
        words = [vocab[eng.choose("w%d" % i, len(vocab))] for i in range(p["k"])]
        one_line = eng.bool("one_line")
        lines = [" ".join(words)] if one_line else list(words)
        vhdlFile_pkg.vhdlFile(lines)
        return True

    def describe(self, values, p):
        vocab = VOCAB if p["v"] == "full" else (SMALL if p["v"] == "small" else SMALL[:13])
        words = [vocab[values.get("w%d" % i, 0)] for i in range(p["k"])]
        return {"lines": [" ".join(words)] if values.get("one_line") else words}

    def signature(self, values, p, detail):
        return _sig(values, p, detail)


# ---------------------------------------------------------------------------------------------------------------------
import re
import time

from sx import symre


def module_patterns():
    """every regular expression compiled at module level in the shipped code (what the rules apply to identifier text)"""
    import vsg.rules  # noqa: F401

    out = []
    for mname in sorted(m for m in sys.modules if m == "vsg" or m.startswith("vsg.")):
        mod = sys.modules[mname]
        for k, v in sorted(vars(mod).items(), key=lambda kv: kv[0]):
            if isinstance(v, re.Pattern):
                ident = "%s.%s" % (mname, k)
                if all(ident != x[0] for x in out) and all(v is not x[1] for x in out):
                    out.append((ident, v))
    return out


def pump_time(pattern, prefix, w, limit=1.0):
    """seconds re.Pattern.fullmatch needs on prefix + w*k + NUL for growing k (stops past `limit`)"""
    worst = 0.0
    for k in range(8, 27):
        s = prefix + w * k + "\x00"
        t0 = time.perf_counter()
        pattern.fullmatch(s)
        worst = max(worst, time.perf_counter() - t0)
        if worst > limit:
            break
    return worst


@register
class K19c(Harness):
    name = "K19c"
    prop = "C19"
    title = "no regular expression compiled by the shipped code backtracks exponentially: for every unbounded repeat (body)*, no string w is consumed by body* in two different ways while prefix+w+w is still matched"
    functions = ("vsg.rules.case_utils", "vsg.vhdlFile.classify.bit_string_literal")
    stubs = ("the repeat is encoded by a path-counting semantics of the regular expression (sx.symre._count); replay times the real re.Pattern.fullmatch on prefix + w*k + NUL, k <= 26",)
    bounds = "every module-level re.Pattern of vsg.*; every unbounded repeat in it; |prefix| <= 2, |w| <= 3 over printable ASCII"
    outside = "regular expressions supplied by the user's configuration (case: regex, prefix/suffix exceptions, pragma patterns); polynomial (non-exponential) ambiguity; longer pump strings"
    exception_props = ("C19",)

    def params(self, tier):
        out = []
        for ident, pat in module_patterns():
            for j in range(len(symre.unbounded_repeats(pat))):
                for lp in (0, 1, 2):
                    for lw in (1, 2, 3):
                        out.append({"pattern": ident, "repeat": j, "lp": lp, "lw": lw})
        return out

    def run(self, eng, p):
        pat = dict(module_patterns())[p["pattern"]]
        body = symre.unbounded_repeats(pat)[p["repeat"]]
        alpha = "".join(chr(c) for c in range(32, 127))
        prefix = eng.str("prefix", p["lp"], alphabet=alpha) if p["lp"] else ""
        w = eng.str("w", p["lw"], alphabet=alpha)
        ways = symre.ways_star(body, w, pat.flags)
        ambiguous = (ways >= 2) if not isinstance(ways, int) else ways >= 2
        in_context = symre.formula(pat, "fullmatch", prefix + w + w)
        if isinstance(eng, core.ConcreteEngine):
            # replay: the real matcher decides
            if not (core.f_of(ambiguous) is True and core.f_of(in_context) is True):
                return True
            return [("terminates_quickly@%s" % p["pattern"], pump_time(pat, prefix, w) <= 1.0)]
        return [("terminates_quickly@%s" % p["pattern"], core.Not(core.And(ambiguous, in_context)))]

    def describe(self, values, p):
        g = lambda name, n: "".join(chr(values.get("%s[%d]" % (name, i), 32)) for i in range(n))
        return {"pattern": p["pattern"], "prefix": g("prefix", p["lp"]), "w": g("w", p["lw"]), "pumped": "prefix + w*k + NUL"}

    def signature(self, values, p, detail):
        return _sig(values, p, detail)
