"""C19 kernel - tiny programs: every sequence of k words from a structural vocabulary through the real vhdlFile constructor
(tokenizer, line classifiers, design_file.tokenize and all post passes): it either returns or raises ClassifyError."""
import sys

from sx import core
from sx.runner import Harness, register

import vsg.vhdlFile.vhdlFile  # noqa: F401
from vsg import exceptions
from vsg import vhdlFile as vhdlFile_pkg

from .k13 import _sig

VOCAB = ["library", "use", "entity", "architecture", "package", "body", "is", "of", "begin", "end", "process", "signal", "port", "generic", "map",
         "component", "if", "then", "case", "when", "for", "generate", "function", "return", "type", "constant", "id", "ieee", "(", ")", ";", ":", ",", "<=", ":=", "=>", ".", "all", "'1'", "--c"]
SMALL = ["library", "use", "entity", "architecture", "is", "of", "begin", "end", "process", "signal", "port", "component", "if", "id", "(", ")", ";", ":", "<=", "."]


@register
class K19b(Harness):
    name = "K19b"
    prop = "C19"
    title = "a file of k vocabulary words is either accepted or rejected with ClassifyError - never another exception"
    functions = ("vsg.vhdlFile", "vsg.tokens", "vsg.parser")
    stubs = ()
    bounds = "quick: every sequence of k<=2 words over a 40-word vocabulary and k=3 over a 20-word one, words separated by one blank, on one line or one word per line; thorough: k=3 over 40 words, k=4 over 20 words (structural choices forked by the engine)"
    outside = "longer programs; other vocabularies"
    allowed_exceptions = (exceptions.ClassifyError,)
    exception_props = ("C19",)

    def params(self, tier):
        if tier == "quick":
            return [{"k": 1, "v": "full"}, {"k": 2, "v": "full"}, {"k": 3, "v": "tiny"}]
        return [{"k": 1, "v": "full"}, {"k": 2, "v": "full"}, {"k": 3, "v": "full"}, {"k": 4, "v": "small"}]

    def shard_target(self, p):
        return 128

    def run(self, eng, p):
        vocab = VOCAB if p["v"] == "full" else (SMALL if p["v"] == "small" else SMALL[:13])
        words = [vocab[eng.choose("w%d" % i, len(vocab))] for i in range(p["k"])]
        one_line = eng.bool("one_line")
        lines = [" ".join(words)] if one_line else list(words)
        vhdlFile_pkg.vhdlFile(lines)
        return True

    def describe(self, values, p):
        vocab = VOCAB if p["v"] == "full" else (SMALL if p["v"] == "small" else SMALL[:13])
        words = [vocab[values.get("w%d" % i, 0)] for i in range(p["k"])]
        return {"lines": [" ".join(words)] if values.get("one_line") else words}

    def signature(self, values, p, detail):
        return _sig(values, p, detail)
