"""C05 kernel - the post-classification passes (post_token_assignments, set_todo_tokens, set_aggregate_tokens) give every
expression token the same role whatever layout material (blanks, line break, comments of every kind) sits in a gap."""
import sys

from sx import core
from sx.runner import Harness, register

import vsg.vhdlFile.vhdlFile  # noqa: F401
from vsg import parser
from vsg.token import delimited_comment, pragma

from .k13 import _sig

VFM = sys.modules["vsg.vhdlFile.vhdlFile"]
WORDS = ["a", "-", "+", "(", ")", ",", "and", "not", "'", "x", "=>", "'1'", "1"]
FILLERS = ["blanks", "line_break", "comment_line_break", "own_line_comment", "pragma_line", "delimited_comment", "two_comment_lines"]


def filler(kind):
    ws = lambda v=" ": parser.whitespace(v)
    if kind == "blanks":
        return [ws("   ")]
    if kind == "line_break":
        return [parser.carriage_return(), ws("    ")]
    if kind == "comment_line_break":
        return [ws(), parser.comment("-- c"), parser.carriage_return(), ws("    ")]
    if kind == "own_line_comment":
        return [parser.carriage_return(), ws("  "), parser.comment("-- c"), parser.carriage_return(), ws("    ")]
    if kind == "pragma_line":
        return [parser.carriage_return(), ws("  "), pragma.single("-- pragma keep"), parser.carriage_return(), ws("    ")]
    if kind == "delimited_comment":
        return [ws(), delimited_comment.beginning("/*"), delimited_comment.text(" c "), delimited_comment.ending("*/"), ws()]
    if kind == "two_comment_lines":
        return [ws(), parser.comment("-- c"), parser.carriage_return(), parser.comment("-- d"), parser.carriage_return(), ws("  ")]
    raise ValueError(kind)


def run_passes(toks):
    VFM.post_token_assignments(toks)
    VFM.set_token_hierarchy_value(toks)
    VFM.set_todo_tokens(toks)
    VFM.set_aggregate_tokens(toks)
    return toks


def is_layout(t):
    return isinstance(t, (parser.whitespace, parser.carriage_return, parser.blank_line, parser.comment, delimited_comment.text)) or type(t).__module__ == pragma.__name__


@register
class K05a(Harness):
    name = "K05a"
    prop = "C05"
    title = "post passes: the role of every expression token is the same with a single blank in each gap and with blanks / a line break / a comment of any kind in one gap"
    functions = ("vsg.vhdlFile.vhdlFile", "vsg.vhdlFile.utils", "vsg.parser")
    stubs = ("the token list is built directly: a leading ':=' followed by n raw expression tokens (parser.todo) with one whitespace token per gap",)
    bounds = "every sequence of n<=3 (quick) / 4 (thorough) words over {a - + ( ) , and not ' x => '1' 1} with balanced parentheses; filler in one symbolic gap out of 7 kinds (blanks, line break, trailing comment, own-line comment, pragma-shaped comment line, delimited comment, two comment lines)"
    outside = "longer expressions; fillers in two gaps at once; the 290 classify modules (they run before these passes)"
    exception_props = ("C05", "C19")

    def params(self, tier):
        return [{"n": n} for n in ([2, 3] if tier == "quick" else [2, 3, 4])]

    def shard_target(self, p):
        return 128

    def run(self, eng, p):
        n = p["n"]
        words = [WORDS[eng.choose("w%d" % i, len(WORDS))] for i in range(n)]
        depth = 0
        for w in words:
            depth += (w == "(") - (w == ")")
            if depth < 0:
                return True
        if depth != 0:
            return True
        gap = eng.choose("gap", n)  # gap g sits before word g (gap 0: between ':=' and the first word)
        kind = FILLERS[eng.choose("filler", len(FILLERS))]

        def build(with_filler):
            from vsg import token

            toks = [token.constant_declaration.assignment_operator(":=")]
            code = []
            for i, w in enumerate(words):
                toks += filler(kind) if (with_filler and i == gap) else [parser.whitespace(" ")]
                t = parser.todo(w)
                toks.append(t)
                code.append(len(toks) - 1)
            toks += [parser.todo(";"), parser.carriage_return()]
            return toks, code

        plain, ci = build(False)
        filled, cj = build(True)
        run_passes(plain)
        run_passes(filled)
        ra = [type(plain[i]).__module__ + "." + type(plain[i]).__name__ for i in ci]
        rb = [type(filled[j]).__module__ + "." + type(filled[j]).__name__ for j in cj]
        return [("roles_independent_of_filler", ra == rb)]

    def describe(self, values, p):
        return {"words": [WORDS[values.get("w%d" % i, 0)] for i in range(p["n"])], "gap_before_word": values.get("gap"), "filler": FILLERS[values.get("filler", 0)]}

    def signature(self, values, p, detail):
        if detail.get("kind") == "exception":
            return _sig(values, p, detail)
        d = self.describe(values, p)
        g = d["gap_before_word"] or 0
        prev = d["words"][g - 1] if g > 0 else ":="
        return "vc:%s:%s_before_%s_after_%s" % (",".join(detail.get("failed", [])), d["filler"], d["words"][g], prev)
