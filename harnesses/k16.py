"""C16 (all-or-nothing write-back, mode kept) and C04/K04e (no write on a clean file / without --fix):
real apply_rules.apply_rules, write_vhdl_file, create_backup_file, configure_rules, rule_list.fix, rule.fix
over a model file system with a symbolic fault and a symbolic crash point."""
from sx import core
from sx.core import And, Or, Not, Implies, Iff, Eq, f_of
from sx.runner import Harness, register

import vsg.apply_rules as AR
from vsg import exceptions, severity

from .k13 import _sig
from .stubs import StubRule, StubFile, make_rule_list

TARGET = "design.vhd"
ORIG = ("orig",)
BODY = "fixed-body"
READ_LINE = "x"


class Crash(BaseException):
    """the process is killed right after an OS call: nothing after it happens (the model FS is frozen)"""


class Stat:
    def __init__(self, mode, fs=None):
        self.st_mode = mode
        self._fs = fs

    @property
    def st_nlink(self):
        # environment: the target may have a second name (hard link); decided the first time the code under check asks
        return 2 if self._fs.eng.bool("target_has_second_hard_link") else 1


class Handle:
    def __init__(self, fs, path):
        self.fs = fs
        self.path = path

    def write(self, text):
        self.fs.op("write", self.path, text)

    def close(self):
        self.fs.op("close", self.path)

    def __enter__(self):
        return self

    def __exit__(self, *a):
        self.close()
        return False


class ModelFS:
    """files: path -> [chunks written, mode].  A chunk is a string, or ('partial', string) after a short write."""

    DEFAULT_MODE = 0o644

    def __init__(self, eng, orig_mode, kinds, two_faults=False):
        self.eng = eng
        self.files = {TARGET: [ORIG, orig_mode]}
        self.n = 0
        self.fault_at = eng.int("fault_at", 0, 14)  # 0: no fault
        self.fault_kind = eng.int("fault_kind", 0, len(kinds) - 1)
        self.fault_at2 = eng.int("fault_at2", 0, 14) if two_faults else 0  # a second, later fault (thorough tier)
        self.fault_kind2 = eng.int("fault_kind2", 0, len(kinds) - 1) if two_faults else 0
        self.kinds = kinds
        self.crash_at = eng.int("crash_at", 0, 14)  # 0: no crash
        self.dead = False
        self.mutations = []
        self.trace = []
        self.faulted = None
        self.fault_log = []

    def _maybe_fault(self, what, path):
        self.n += 1
        self.trace.append((self.n, what, path))
        if self.fault_at == self.n:
            k = self.kinds[int(self.fault_kind)]
            self.faulted = (what, k)
            self.fault_log.append((what, k))
            return k
        if self.faulted is not None and self.fault_at2 == self.n:
            k = self.kinds[int(self.fault_kind2)]
            self.faulted = (what, k)
            self.fault_log.append((what, k))
            return k
        return None

    def _after(self):
        if self.crash_at == self.n:
            self.dead = True
            raise Crash()

    def _raise(self, k, what):
        if k == "perm":
            raise PermissionError(13, "Permission denied")
        if k == "nospc":
            raise OSError(28, "No space left on device")
        if k == "noent":
            raise FileNotFoundError(2, "No such file or directory")
        raise OSError(5, "Input/output error")

    def op(self, what, path, arg=None):
        if self.dead:
            raise Crash()
        k = self._maybe_fault(what, path)
        if what == "stat":
            if k:
                self._raise(k, what)
            if path not in self.files:
                raise FileNotFoundError(2, "No such file")
            r = Stat(self.files[path][1], self)
        elif what == "open_w":
            if k:
                self._raise(k, what)
            self.mutations.append((what, path))
            self.files[path] = [(), self.DEFAULT_MODE]
            r = Handle(self, path)
        elif what == "os_open":
            if k:
                self._raise(k, what)
            self.mutations.append((what, path))
            created = arg
            if self.eng.bool("umask_masks_a_requested_bit"):
                created = self.eng.int("created_mode", 0, 0o777)
                self.eng.assume(Not(f_of(created == arg)))
            self.files[path] = [(), created]
            r = 3
        elif what == "write":
            if k:
                # a failing write may have put part of the data on disk
                self.mutations.append((what, path))
                f = self.files[path]
                f[0] = f[0] + (("partial", arg),)
                self._after_fault()
                self._raise(k, what)
            self.mutations.append((what, path))
            f = self.files[path]
            f[0] = f[0] + (arg,)
            r = None
        elif what == "close":
            if k:
                self._raise(k, what)
            r = None
        elif what == "chmod":
            if k:
                self._raise(k, what)
            self.mutations.append((what, path))
            self.files[path][1] = arg
            r = None
        elif what == "replace":
            if k:
                self._raise(k, what)
            src, dst = path
            if src not in self.files:
                raise FileNotFoundError(2, "No such file")
            self.mutations.append((what, dst))
            self.files[dst] = self.files.pop(src)
            r = None
        elif what == "remove":
            if k:
                self._raise(k, what)
            if path not in self.files:
                raise FileNotFoundError(2, "No such file")
            self.mutations.append((what, path))
            del self.files[path]
            r = None
        elif what == "open_trunc":
            # open(dst, 'wb') on an existing file: the data is gone from this call on, the inode (and its mode) stays
            if k:
                self._raise(k, what)
            self.mutations.append((what, path))
            self.files[path] = [(), self.files[path][1] if path in self.files else self.DEFAULT_MODE]
            r = None
        elif what == "copy2":
            if k:
                self._raise(k, what)
            src, dst = path
            self.mutations.append((what, dst))
            self.files[dst] = [self.files[src][0], self.files[src][1]]
            r = None
        else:
            raise AssertionError(what)
        self._after()
        return r

    def _after_fault(self):
        if self.crash_at == self.n:
            self.dead = True
            raise Crash()


class OsStub:
    sep = "/"
    O_WRONLY, O_CREAT, O_TRUNC, O_CLOEXEC, O_EXCL = 1, 64, 512, 524288, 128

    def __init__(self, fs):
        self.fs = fs

    def __getattr__(self, name):
        raise core.Unsupported("os.%s is not part of the model file system" % name)

    @property
    def path(self):
        return PathStub(self.fs)

    def open(self, p, flags, mode=0o777):
        # open(2): the requested mode is filtered by the process umask (an arbitrary environment value)
        return self.fs.op("os_open", p, mode)

    def close(self, fd):
        return None

    def stat(self, p):
        return self.fs.op("stat", p)

    def chmod(self, p, m):
        return self.fs.op("chmod", p, m)

    def replace(self, a, b):
        return self.fs.op("replace", (a, b))

    def remove(self, p):
        return self.fs.op("remove", p)


class PathStub:
    def __init__(self, fs):
        self.fs = fs

    def __getattr__(self, name):
        raise core.Unsupported("os.path.%s is not part of the model file system" % name)

    def islink(self, p):
        # environment: the name the user passed may be a symbolic link to the file
        return p == TARGET and bool(self.fs.eng.bool("target_is_symlink"))

    def exists(self, p):
        return p in self.fs.files

    def isfile(self, p):
        return p in self.fs.files


class ShutilStub:
    def __init__(self, fs):
        self.fs = fs

    def __getattr__(self, name):
        raise core.Unsupported("shutil.%s is not part of the model file system" % name)

    def copyfile(self, a, b, **k):
        # in-place copy: truncate the destination, then one write per chunk of the source (each an OS call that can fail or be the last)
        if a not in self.fs.files:
            raise FileNotFoundError(2, "No such file")
        self.fs.op("open_trunc", b)
        for chunk in self.fs.files[a][0]:
            self.fs.op("write", b, chunk)
        self.fs.op("close", b)
        return b

    def copy(self, a, b, **k):
        self.copyfile(a, b)
        self.fs.op("chmod", b, self.fs.files[a][1])
        return b

    def copy2(self, a, b):
        return self.fs.op("copy2", (a, b))


class FileModel(StubFile):
    """text of the in-memory model: the lines read, until a rule fix (update) or the silent phase-1 normalisation
    (fix_trailing_whitespace / fix_blank_lines, symbolic: did it change anything?) alters it"""

    def __init__(self, eng):
        super().__init__()
        self.filename = TARGET
        self.eng = eng
        self.body = READ_LINE

    def set_indent_map(self, d):
        pass

    def update(self, lUpdates, bUpdateMap):
        super().update(lUpdates, bUpdateMap)
        if len(lUpdates) > 0:
            self.body = BODY

    def fix_trailing_whitespace(self):
        super().fix_trailing_whitespace()
        if self.eng.bool("normalisation_changes_text") and self.body == READ_LINE:
            self.body = READ_LINE + "-normalised"

    def get_lines(self):
        return ["", self.body]


class RaisingRule(StubRule):
    def _fix_violation(self, v):
        if self.eng.bool("rule_raises"):
            raise RuntimeError("rule blew up")
        super()._fix_violation(v)


class CLA:
    local_rules = None
    fix_phase = 7
    skip_phase = []
    all_phases = True
    output_format = "vsg"
    junit = None
    json = None
    quality_report = None


class Cfg:
    dIndent = {}
    dFixOnly = None

    def __init__(self):
        self.dConfig = {}
        self.severity_list = severity.create_list({})


FIXED_COMPLETE = (BODY, "\n")
KINDS = ["perm", "nospc", "noent", "eio"]


@register
class K16(Harness):
    name = "K16"
    prop = "C16"
    props = ("C16", "C04")
    title = "write-back over a model file system: at every crash point and under every single OS-call fault the target holds the complete original or the complete fixed text with its original mode"
    functions = ("vsg.apply_rules", "vsg.rule_list", "vsg.rule")
    stubs = (
        "os.stat/chmod/replace/remove, shutil.copy2/copyfile/copy and open(...,'w') are a model file system {path: (chunks, mode)}; a failing write may leave a partial chunk; an in-place copy truncates first",
        "whether the target is a symbolic link / has a second hard link (os.path.islink, st_nlink) is an arbitrary environment value, decided when the code asks",
        "vhdlFile construction and rule_list loading replaced: parse error / configuration error are symbolic flags, rules are StubRules (one may raise)",
    )
    assumptions = ("os.replace is atomic", "a failing call affects only the file it operates on", "SIGKILL = nothing after the last completed OS call happens")
    bounds = "every position (1..14) of one injected fault of kind {EACCES, ENOSPC, ENOENT, EIO} x every crash point (after OS call 1..14) x --fix/--backup/parse error/config error/rule raising x original mode 0..0o777 symbolic x 1 rule with 0..1 violations"
    outside = "three or more faults in one run (thorough: two); real kernel/file-system semantics"
    allowed_exceptions = ()

    def params(self, tier):
        return [{}] if tier == "quick" else [{}, {"faults": 2}]

    def run(self, eng, p):
        orig_mode = eng.int("orig_mode", 0, 0o777)
        fs = ModelFS(eng, orig_mode, KINDS, two_faults=bool(p.get("faults") == 2))
        fix = eng.bool("fix")
        backup = eng.bool("backup")
        parse_error = eng.bool("parse_error")
        config_error = eng.bool("config_error")
        cla = CLA()
        cla.fix = fix
        cla.backup = backup
        cfg = Cfg()
        oFile = FileModel(eng)
        rule = RaisingRule(eng, 0, phases=(1, 1), subphases=(1, 1), max_viol=1, lines=(1, 1))

        class VF:
            class utils:
                @staticmethod
                def read_vhdlfile(name):
                    return [READ_LINE], None

            @staticmethod
            def vhdlFile(*a, **k):
                if parse_error:
                    raise exceptions.ClassifyError("Error: Unexpected token detected while parsing x @ Line 1, Column 1 in file " + TARGET)
                return oFile

        class RL:
            @staticmethod
            def rule_list(oVhdlFile, sev, local=None):
                rl = make_rule_list([rule], oVhdlFile)
                real = rl.configure

                def configure(oConfig):
                    if config_error:
                        raise exceptions.ConfigurationError("ERROR: Rule x referenced in configuration could not be found")
                    return real(oConfig)

                rl.configure = configure
                return rl

        saved = (AR.vhdlFile, AR.rule_list, AR.os, AR.shutil, AR.__dict__.get("open"))
        AR.vhdlFile, AR.rule_list, AR.os, AR.shutil = VF, RL, OsStub(fs), ShutilStub(fs)
        def model_open(path, mode="r", **k):
            if "w" not in mode:
                raise AssertionError("unexpected read of %r" % (path,))
            if k.get("opener") is not None:
                k["opener"](path, OsStub.O_WRONLY | OsStub.O_CREAT | OsStub.O_TRUNC)
                return Handle(fs, path)
            return fs.op("open_w", path)

        AR.open = model_open
        outcome = "returned"
        result = None
        try:
            try:
                result = AR.apply_rules(cla, cfg, (0, TARGET))
            except Crash:
                outcome = "crashed"
            except OSError as e:
                outcome = "oserror"
            except RuntimeError as e:
                outcome = "rule_raised"
        finally:
            AR.vhdlFile, AR.rule_list, AR.os, AR.shutil = saved[:4]
            if saved[4] is None:
                del AR.open
            else:
                AR.open = saved[4]

        files = fs.files
        clauses = []
        tgt = files.get(TARGET)
        clauses.append(("C16:target_exists", tgt is not None))
        if tgt is not None:
            clauses.append(("C16:content_all_or_nothing", tgt[0] == ORIG or tgt[0] == (oFile.body, "\n")))
            clauses.append(("C16:mode_kept", Eq(tgt[1], orig_mode)))
        tmp_left = [k for k in files if k.endswith(".tmp")]
        remove_failed = any(w == "remove" for (w, k) in fs.fault_log)
        if outcome != "crashed" and not remove_failed:  # if the removal itself is the failing call nothing can remove the file
            clauses.append(("C16:tmp_removed", not tmp_left))
        bak = files.get(TARGET + ".bak")
        if bak is not None:
            clauses.append(("C16:backup_faithful", bak[0] == ORIG))
        did_fix = len(rule.fixed) > 0
        if outcome == "returned":
            # a completed run with --fix --backup has a backup; a run that fixed something wrote the complete fixed text
            # (unless the write-back itself hit the injected fault, in which case the original must still be there)
            wrote = tgt is not None and tgt[0] == (oFile.body, "\n")
            clauses.append(("C16:backup_made", Implies(And(fix, backup, Not(parse_error), Not(config_error)), bak is not None)))
            clauses.append(("C16:fixed_written_unless_fault", Implies(And(did_fix, fs.faulted is None), wrote)))
            # exit contribution / status on rejected input
            if parse_error or config_error:
                clauses.append(("C16:rejected_file_untouched", len(fs.mutations) == 0))
                clauses.append(("C19:rejected_status", bool(result[0]) is True and "Error while processing" in str(result[4])))
        if parse_error or config_error:
            clauses.append(("C16:rejected_file_untouched", len(fs.mutations) == 0))
        # C04: nothing is written unless --fix actually fixed something
        touched_target = any(m[1] == TARGET for m in fs.mutations)
        any_mut = len(fs.mutations) > 0
        clauses.append(("C04:no_mutation_without_fix", Implies(Not(fix), not any_mut)))
        clauses.append(("C04:target_untouched_when_nothing_fixed", Implies(not did_fix, not touched_target)))
        only_bak = all(m[1] == TARGET + ".bak" for m in fs.mutations)
        clauses.append(("C04:clean_file_no_tmp", Implies(not did_fix, only_bak)))
        return clauses

    def describe(self, values, p):
        d = dict(values)
        d["fault_kind_name"] = KINDS[values.get("fault_kind", 0)] if values.get("fault_at") else None
        return d

    signature = staticmethod(_sig)
