"""C17 - the emitted configuration reproduces the run: real rule.get_configuration / rule.configure (+ configure_* helpers),
rule_list.get_configuration / configure, for every shipped rule and every name in its `configuration` list."""
import os
import random

from sx import core
from sx.core import And, Or, Not, Implies, Iff, Eq, f_of
from sx.runner import Harness, register

import vsg.rules  # noqa: F401
from vsg import config, rule_list, severity
from vsg import vhdlFile as vhdlFile_pkg

from .k13 import _sig

SEV_CONF = {"severity": {"Custom": {"type": "error"}, "Note": {"type": "warning"}}}
SEV_NAMES = ["Error", "Warning", "Custom", "Note"]
_RL = {}


def fresh_rules():
    o = vhdlFile_pkg.vhdlFile([""])
    return rule_list.rule_list(o, severity.create_list(SEV_CONF))


def rule_ids():
    if "ids" not in _RL:
        rl = fresh_rules()
        _RL["ids"] = [r.unique_id for r in rl.rules if not rule_list.is_rule_deprecated(r)]
    return _RL["ids"]


def json_roundtrip(v):
    """what json.dump + load does to a configuration value, structurally (symbolic leaves pass through untouched)"""
    if isinstance(v, dict):
        return {(k if isinstance(k, (str, core.SymStr)) else str(k)): json_roundtrip(x) for k, x in v.items()}
    if isinstance(v, (list, tuple)):
        return [json_roundtrip(x) for x in v]
    return v


def sym_value(eng, name, cur):
    if isinstance(cur, bool):
        return eng.bool(name)
    if isinstance(cur, int):
        return eng.int(name, 0, 9)
    if isinstance(cur, str):
        if cur in ("yes", "no"):
            return ["yes", "no", True, False][eng.choose(name, 4)]
        return eng.str(name, 2, alphabet="abc")
    if isinstance(cur, list):
        return [eng.str(name, 2, alphabet="ab_")]
    return cur


@register
class K17(Harness):
    name = "K17"
    prop = "C17"
    parallel_params = True
    per_clause_findings = True
    title = "for every rule and every configurable attribute set to a symbolic value: emit, configure a fresh rule from the emitted dictionary, emit again -> identical, and the effective attributes are the configured values"
    functions = ("vsg.rule", "vsg.rule_list", "vsg.rules", "vsg.severity")
    stubs = ("json.dump / yaml load replaced by a structural copy with JSON's type coercions", "the rule is configured at the rule level of a one-rule configuration dictionary")
    bounds = "quick: 80 rules chosen by VERIF_SEED plus the multiline_* structure rules; thorough: every non-deprecated rule; each attribute gets a symbolic value of its current type (bools, ints 0..9, 2-character strings, yes/no options also as YAML booleans, one-element lists); severity over 4 names incl. two user-defined"
    outside = "YAML/JSON text level; behaviour of the rules under the emitted configuration on VHDL input (L17 not built)"
    exception_props = ("C17", "C19")
    min_conclusive_share = 0.5

    def params(self, tier):
        ids = rule_ids()
        seed = int(os.environ.get("VERIF_SEED", "0") or 0)
        if tier == "quick":
            rnd = random.Random(seed % 3)
            pinned = [i for i in ids if i in ("concurrent_012", "sequential_009", "variable_assignment_008", "constant_016", "port_010", "comment_010", "block_comment_001")]
            ids = pinned + rnd.sample([i for i in ids if i not in pinned], 80)
        return [{"rule": i, "_limits": {"shard_paths": 300}} for i in ids]

    def run(self, eng, p):
        uid = p["rule"]
        rl = fresh_rules()
        r = [x for x in rl.rules if x.unique_id == uid][0]
        vals = {}
        for k in r.configuration:
            if k == "severity":
                vals[k] = SEV_NAMES[eng.choose("severity", 4)]
            else:
                vals[k] = sym_value(eng, k, getattr(r, k, None))
        c = config.config()
        c.dConfig = {"rule": {uid: dict(vals)}}
        c.severity_list = rl.oSeverityList
        r.configure(c)
        emitted1 = json_roundtrip(r.get_configuration())
        rl2 = fresh_rules()
        r2 = [x for x in rl2.rules if x.unique_id == uid][0]
        c2 = config.config()
        c2.dConfig = {"rule": {uid: emitted1}}
        c2.severity_list = rl2.oSeverityList
        r2.configure(c2)
        emitted2 = json_roundtrip(r2.get_configuration())
        clauses = [("emit_is_idempotent", Eq(emitted1, emitted2))]
        for k, v in vals.items():
            if k == "severity":
                clauses.append(("effective_severity", r2.severity is not None and r2.severity.name == v))
            else:
                a1, a2 = getattr(r, k, None), getattr(r2, k, None)
                same_type = type(a2) is type(v) or isinstance(v, (core.SymStr, core.SymInt, core.SymBool))
                clauses.append(("effective_%s" % k, And(same_type, Eq(a2, v)) if not isinstance(v, list) else Eq(a2, v)))
        return clauses

    signature = staticmethod(_sig)


def yes_no_options():
    """(rule, option) pairs whose shipped value is 'yes'/'no' - one per distinct option name, in rule order"""
    if "yn" not in _RL:
        out, seen = [], set()
        for r in fresh_rules().rules:
            if rule_list.is_rule_deprecated(r):
                continue
            for k in r.configuration:
                if getattr(r, k, None) in ("yes", "no") and k not in seen:
                    seen.add(k)
                    out.append((r.unique_id, k))
        _RL["yn"] = out
    return _RL["yn"]


@register
class K17b(Harness):
    name = "K17b"
    prop = "C17"
    title = "whole rule list: configuration emitted under a style, fed back with no style, is emitted identically"
    functions = ("vsg.rule_list", "vsg.rule", "vsg.config")
    stubs = K17.stubs
    bounds = "styles {none, jcl, indent_only}; a symbolic global indent_size (0..9) and a symbolic global disable on top; one yes/no option (one representative rule per distinct option name) set to True / False / 'yes' / 'no'"
    outside = "user-defined severities at rule-list level (see DESIGN.md findings)"
    exception_props = ("C17", "C19")

    def params(self, tier):
        return [{"style": s} for s in (None, "jcl", "indent_only")]

    def run(self, eng, p):
        from .lfam import CLA

        base = config.New(CLA(style=p["style"]))
        d = dict(base.dConfig)
        rules = dict(d.get("rule", {}))
        g = dict(rules.get("global", {}))
        g["indent_size"] = eng.int("indent_size", 0, 9)
        if eng.bool("set_disable"):
            g["disable"] = eng.bool("disable")
        rules["global"] = g
        # one yes/no option of one rule written the way YAML users write it (unquoted yes/no arrive as booleans) or as a string
        yn = yes_no_options()
        pick = yn[eng.choose("yn_rule", len(yn))]
        val = [True, False, "yes", "no"][eng.choose("yn_value", 4)]
        rules[pick[0]] = dict(rules.get(pick[0], {}))
        rules[pick[0]][pick[1]] = val
        d["rule"] = rules
        c = config.config()
        c.dConfig = d
        c.severity_list = base.severity_list
        o = vhdlFile_pkg.vhdlFile([""])
        rl = rule_list.rule_list(o, base.severity_list)
        rl.configure(c)
        e1 = json_roundtrip(rl.get_configuration())
        c2 = config.config()
        c2.dConfig = {"rule": e1}
        c2.severity_list = base.severity_list
        rl2 = rule_list.rule_list(vhdlFile_pkg.vhdlFile([""]), base.severity_list)
        rl2.configure(c2)
        e2 = json_roundtrip(rl2.get_configuration())
        ra = [x for x in rl.rules if x.unique_id == pick[0]][0]
        rb = [x for x in rl2.rules if x.unique_id == pick[0]][0]
        a, b = getattr(ra, pick[1]), getattr(rb, pick[1])
        return [("same_rules", set(e1.keys()) == set(e2.keys())), ("emit_is_idempotent", And([Eq(e1[k], e2[k]) for k in e1 if k in e2])),
                ("effective_option_same_after_round_trip", type(a) is type(b) and a == b)]

    signature = staticmethod(_sig)


import io
import sys as _sys

import vsg.__main__  # noqa: F401,E402

MAINMOD = _sys.modules["vsg.__main__"]
TRICKY = ["a", " ", '"', "\\", "\n", "\t", "\x85", " ", "\xe9", ":", "#", "'", "{", "%"]


class _Exit(Exception):
    pass


@register
class K17c(Harness):
    name = "K17c"
    prop = "C17"
    parallel_params = True
    title = "text level: the file written by --output_configuration (real json.dump), read back by the real configuration reader (yaml), yields the same effective string values and is emitted identically"
    functions = ("vsg.__main__", "vsg.config", "vsg.rule_list", "vsg.rule")
    stubs = ("open() in vsg.__main__ and vsg.config captured in memory; sys.exit intercepted; one rule (entity_004) carries the string",)
    bounds = "user_error_message = every string of 1-2 characters over a 14-symbol alphabet of characters that serialisers treat specially (quotes, backslash, newline, tab, U+0085, U+2028, Latin-1 letter, ':', '#', brace, percent, blank) - engine-forked, run concretely through json and yaml"
    outside = "longer strings; other attributes"
    exception_props = ("C17", "C19")

    def params(self, tier):
        return [{"n": 1}] + [{"n": 2, "first": k} for k in range(len(TRICKY))]

    def run(self, eng, p):
        from .lfam import CLA

        msg = (TRICKY[p["first"]] if "first" in p else "") + "".join(TRICKY[eng.choose("c%d" % i, len(TRICKY))] for i in range(1 if "first" in p else p["n"]))
        files = {}

        class Sink(io.StringIO):
            def __init__(self, name):
                super().__init__()
                self.name_ = name

            def close(self):
                files[self.name_] = self.getvalue()
                super().close()

            def __exit__(self, *a):
                self.close()
                return False

        def emit(conf, name):
            cla = CLA()
            cla.output_configuration = name
            cla.filename = []
            saved = (MAINMOD.__dict__.get("open"), MAINMOD.sys)

            class S:
                @staticmethod
                def exit(code=0):
                    raise _Exit()

            MAINMOD.open = lambda n, mode="r", *a, **k: Sink(n)
            MAINMOD.sys = S
            try:
                try:
                    MAINMOD.generate_output_configuration(cla, conf)
                except _Exit:
                    pass
            finally:
                if saved[0] is None:
                    MAINMOD.__dict__.pop("open", None)
                else:
                    MAINMOD.open = saved[0]
                MAINMOD.sys = saved[1]
            return files[name]

        def read(name):
            real_open = config.__dict__.get("open")
            config.open = lambda n, *a, **k: io.StringIO(files[n]) if n in files else open(n, *a, **k)
            try:
                cla = CLA(configuration=[name])
                return config.New(cla)
            finally:
                if real_open is None:
                    config.__dict__.pop("open", None)
                else:
                    config.open = real_open

        base = config.New(CLA())
        base.dConfig = dict(base.dConfig)
        base.dConfig["rule"] = {"entity_004": {"user_error_message": msg}}
        t1 = emit(base, "one.json")
        c2 = read("one.json")
        t2 = emit(c2, "two.json")
        got = c2.dConfig["rule"]["entity_004"]["user_error_message"]
        return [("string_survives_round_trip", got == msg), ("emitted_file_identical", t1 == t2)]

    def describe(self, values, p):
        return {"user_error_message": (TRICKY[p["first"]] if "first" in p else "") + "".join(TRICKY[values.get("c%d" % i, 0)] for i in range(1 if "first" in p else p["n"]))}

    signature = staticmethod(_sig)
