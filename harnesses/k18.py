"""C18 kernels - the token index (token_map.process_tokens + lookups) and extract.tokens.New mirror the token list."""
from sx import core
from sx.core import And, Or, Not, Implies, Iff, Eq, f_of
from sx.runner import Harness, register

from vsg import parser, token
from vsg.token_map import process_tokens
from vsg.vhdlFile.extract import tokens as xtokens

from .k13 import _sig

PALETTE = [
    ("ws", lambda: parser.whitespace(" ")),
    ("cr", lambda: parser.carriage_return()),
    ("comment", lambda: parser.comment("-- c")),
    ("A", lambda: token.signal_declaration.signal_keyword("signal")),
    ("B", lambda: token.signal_declaration.identifier("x")),
    ("comma", lambda: token.signal_declaration.comma(",") if hasattr(token.signal_declaration, "comma") else parser.comma(",")),
    ("blank", lambda: parser.blank_line()),
]
CLASSES = {"ws": parser.whitespace, "cr": parser.carriage_return, "comment": parser.comment, "A": token.signal_declaration.signal_keyword, "B": token.signal_declaration.identifier, "blank": parser.blank_line}


@register
class K18a(Harness):
    name = "K18a"
    prop = "C18"
    title = "token index lookups equal a linear scan of the token list"
    functions = ("vsg.token_map", "vsg.parser")
    stubs = ()
    bounds = "every token list of n<=5 (quick) / 6 (thorough) tokens over {whitespace, carriage_return, comment, two code classes, comma, blank_line} ending in a carriage return; symbolic query index"
    outside = "longer lists; get_token_pair_indexes (nesting) is exercised only through the L family"

    def params(self, tier):
        return [{"n": n} for n in ([2, 3, 4, 5] if tier == "quick" else [2, 3, 4, 5, 6])]

    def shard_target(self, p):
        return 64

    def run(self, eng, p):
        n = p["n"]
        kinds = [PALETTE[eng.choose("k%d" % i, len(PALETTE))][0] for i in range(n - 1)] + ["cr"]
        toks = [dict(PALETTE)[k]() for k in kinds]
        m = process_tokens(toks)
        q = int(eng.int("q", 0, n - 1))
        cl = []
        is_cr = [k == "cr" for k in kinds]
        cl.append(("line_number", m.get_line_number_of_index(q) == 1 + sum(1 for i in range(q) if is_cr[i])))
        nxt_cr = [i for i in range(n) if is_cr[i] and i > q]
        if nxt_cr:
            cl.append(("cr_after", m.get_index_of_carriage_return_after_index(q) == nxt_cr[0]))
        prev_cr = [i for i in range(n) if is_cr[i] and i < q]
        if prev_cr:
            cl.append(("cr_before", m.get_index_of_carriage_return_before_index(q) == prev_cr[-1]))
        for name, cls in CLASSES.items():
            idx = [i for i in range(n) if kinds[i] == name]
            cl.append(("indexes_" + name, list(m.get_token_indexes(cls)) == idx))
            cl.append(("is_at_" + name, m.is_token_at_index(cls, q) == (q in idx)))
            after = [i for i in idx if i > q]
            cl.append(("after_" + name, m.get_index_of_token_after_index(cls, q) == (after[0] if after else None)))
        nonws = [i for i in range(q + 1, min(n, q + 5)) if kinds[i] not in ("ws", "cr", "blank")]
        cl.append(("next_non_whitespace", m.get_index_of_next_non_whitespace_token(q) == (nonws[0] if nonws else None)))
        cl.append(("is_whitespace", m.is_token_at_index_whitespace(q) == (kinds[q] in ("ws", "cr", "blank"))))
        cl.append(("max_token", m.iMaxToken == n))
        return cl

    def describe(self, values, p):
        return {"kinds": [PALETTE[values.get("k%d" % i, 0)][0] for i in range(p["n"] - 1)] + ["cr"], "q": values.get("q"), "lo": values.get("lo"), "hi": values.get("hi"), "a": values.get("a"), "b": values.get("b")}

    signature = staticmethod(_sig)


@register
class K18b(Harness):
    name = "K18b"
    prop = "C18"
    title = "extract.tokens.New / extract_tokens: a (sub-)region of interest records the start index, end index and line where its tokens sit"
    functions = ("vsg.vhdlFile.extract.tokens", "vsg.parser")
    stubs = ()
    bounds = "every list of n<=5 (quick) / 6 (thorough) tokens over {carriage_return, code token} ending in a carriage return; every region [lo..hi] and sub-region [a..b] (symbolic indices)"
    outside = "longer lists"

    def params(self, tier):
        return [{"n": n} for n in ([2, 3, 4, 5] if tier == "quick" else [2, 3, 4, 5, 6])]

    def run(self, eng, p):
        n = p["n"]
        kinds = ["cr" if eng.bool("cr%d" % i) else "B" for i in range(n - 1)] + ["cr"]
        toks = [dict(PALETTE)[k]() for k in kinds]
        is_cr = [k == "cr" for k in kinds]
        cl = []
        lo = int(eng.int("lo", 0, n - 1))
        hi = int(eng.int("hi", 0, n - 1))
        if lo > hi:
            return True
        line = 1 + sum(1 for i in range(lo) if is_cr[i])
        oToi = xtokens.New(lo, line, toks[lo:hi + 1])
        cl.append(("toi_end_index", oToi.iEndIndex == hi + 1))
        a = int(eng.int("a", 0, n - 1))
        b = int(eng.int("b", 0, n - 1))
        if a <= b <= hi - lo:
            sub = oToi.extract_tokens(a, b)
            cl.append(("sub_toi_start", sub.iStartIndex == lo + a))
            cl.append(("sub_toi_tokens", all(x is y for x, y in zip(sub.lTokens, toks[lo + a:lo + b + 1])) and len(sub.lTokens) == b - a + 1))
            cl.append(("sub_toi_line", sub.iLine == 1 + sum(1 for i in range(lo + a) if is_cr[i])))
            cl.append(("sub_toi_end", sub.iEndIndex == lo + b + 1))
        return cl

    def describe(self, values, p):
        return {"kinds": ["cr" if values.get("cr%d" % i) else "B" for i in range(p["n"] - 1)] + ["cr"], "lo": values.get("lo"), "hi": values.get("hi"), "a": values.get("a"), "b": values.get("b")}

    signature = staticmethod(_sig)


@register
class K08b(Harness):
    name = "K08b"
    prop = "C08"
    props = ("C08", "C09", "C13")
    title = "the clean-up that follows the structural phase (vhdlFile.fix_blank_lines, fix_trailing_whitespace, update_token_map) leaves the model in the form a fresh parse of the written text has: no blank before a line break, every empty line a blank_line token, nothing else touched; applying it again changes nothing"
    functions = ("vsg.vhdlFile.vhdlFile", "vsg.vhdlFile.utils", "vsg.token_map", "vsg.parser")
    stubs = ("the model is a real vhdlFile object whose token list is replaced by the symbolic sequence",)
    bounds = "every token list 'code' + n<=5 (quick) / 6 (thorough) tokens over {whitespace, carriage_return, comment, code, blank_line} + carriage_return, that contains no blank_line token outside an empty line"
    outside = "longer lists; a file whose very first line is empty or blank (the helpers look at the token before index 0)"

    def params(self, tier):
        return [{"n": n} for n in ([1, 2, 3, 4, 5] if tier == "quick" else [1, 2, 3, 4, 5, 6])]

    def shard_target(self, p):
        return 64

    def run(self, eng, p):
        import vsg.vhdlFile.vhdlFile  # noqa: F401
        from vsg import vhdlFile as vhdlFile_pkg

        names = ["ws", "cr", "comment", "B", "blank"]
        n = p["n"]
        kinds = ["B"] + [names[eng.choose("k%d" % i, len(names))] for i in range(n)] + ["cr"]
        # well-formed input model: a blank_line token only as the sole content of a line; no two adjacent whitespace tokens
        for i, k in enumerate(kinds):
            if k == "blank" and not (kinds[i - 1] == "cr" and kinds[i + 1] == "cr"):
                return True
            if k == "ws" and kinds[i - 1] == "ws":
                return True
            if k == "comment" and kinds[i + 1] != "cr":
                return True
        toks = [dict(PALETTE)[k]() for k in kinds]
        o = vhdlFile_pkg.vhdlFile([""])
        o.lAllObjects = list(toks)
        o.update_token_map()

        # the indent refresh (run before phase 4, and instead of the clean-up when phase 1 is skipped) only writes indent attributes:
        # it must leave the token sequence alone, or work of a skipped phase would be done behind the user's back
        from .lfam import get_conf

        o.set_indent_map(get_conf("default").dIndent)
        before = list(o.lAllObjects)
        vals = [t.get_value() for t in before]
        o.set_token_indent()
        same = len(o.lAllObjects) == len(before) and all(x is y for x, y in zip(o.lAllObjects, before)) and [t.get_value() for t in o.lAllObjects] == vals
        pre = [("C13:indent_refresh_leaves_tokens_alone", same)]
        o.lAllObjects = list(toks)
        o.update_token_map()

        def cleanup():
            o.fix_blank_lines()
            o.fix_trailing_whitespace()
            o.update_token_map()

        cleanup()
        out = list(o.lAllObjects)
        kind = lambda t: "blank" if isinstance(t, parser.blank_line) else "cr" if isinstance(t, parser.carriage_return) else "ws" if isinstance(t, parser.whitespace) else "comment" if isinstance(t, parser.comment) else "B"
        ko = [kind(t) for t in out]
        cl = list(pre)
        cl.append(("C08:no_blank_before_line_break", not any(a == "ws" and b == "cr" for a, b in zip(ko, ko[1:]))))
        cl.append(("C08:empty_line_is_blank_line_token", not any(a == "cr" and b == "cr" for a, b in zip(ko, ko[1:]))))
        cl.append(("C08:blank_line_token_only_on_empty_line", all(ko[i - 1] == "cr" and ko[i + 1] == "cr" for i in range(len(ko)) if ko[i] == "blank")))
        solid = lambda L: [t for t in L if kind(t) in ("B", "comment")]
        cl.append(("C08:code_and_comments_untouched", len(solid(out)) == len(solid(toks)) and all(x is y for x, y in zip(solid(out), solid(toks)))))
        cl.append(("C08:line_count_kept", ko.count("cr") == kinds.count("cr")))
        fresh = process_tokens(out)
        cl.append(("C08:index_rebuilt", o.oTokenMap.iMaxToken == len(out) and list(o.oTokenMap.get_token_indexes(parser.carriage_return)) == list(fresh.get_token_indexes(parser.carriage_return)) and list(o.oTokenMap.get_token_indexes(parser.blank_line)) == list(fresh.get_token_indexes(parser.blank_line))))
        cleanup()
        k2 = [kind(t) for t in o.lAllObjects]
        cl.append(("C09:cleanup_is_idempotent", k2 == ko))
        return cl

    def describe(self, values, p):
        names = ["ws", "cr", "comment", "B", "blank"]
        return {"kinds": ["B"] + [names[values.get("k%d" % i, 0)] for i in range(p["n"])] + ["cr"]}

    signature = staticmethod(_sig)


_WS_RULES = []


def _ws_rules():
    """(unique_id, fixture) of every shipped rule built on whitespace_between_tokens.Rule that has its own corpus fixture"""
    import os

    from vsg import rule_list, vhdlFile as vhdlFile_pkg
    from vsg.rules import whitespace_between_tokens as W

    from .lfam import CORPUS, get_conf

    if not _WS_RULES:
        o = vhdlFile_pkg.vhdlFile([""])
        rl = rule_list.rule_list(o, get_conf("default").severity_list)
        for r in rl.rules:
            if isinstance(r, W.Rule) and not rule_list.is_rule_deprecated(r):
                f = "fixtures/%s__rule_%s_test_input.vhd" % (type(r).__module__.split(".")[-2], r.unique_id.rsplit("_", 1)[1])  # tests/<rule directory>/
                if os.path.exists(os.path.join(CORPUS, f)):
                    _WS_RULES.append((r.unique_id, f))
    return _WS_RULES


@register
class K08c(Harness):
    name = "K08c"
    prop = "C08"
    props = ("C08", "C10")
    title = "a whitespace rule's fix, under every documented spelling of number_of_spaces (N, >N, >=N, N+, <N, <=N), leaves a model that a fresh parse of its own text reproduces token for token (no zero-width token), the rule reports on that model what it reports on the fresh parse, and nothing it can repair is left"
    functions = ("vsg.rules.whitespace_between_tokens", "vsg.rule.rule", "vsg.rules.utils", "vsg.vhdlFile.vhdlFile", "vsg.token_map", "vsg.tokens")
    stubs = ()
    assumptions = ("a spelling that allows or demands zero blanks is applied only to a rule whose token pairs in the fixture stay two tokens when written without a blank (`end` `process` would become one word: the configuration, not the fix, fuses them)",)
    bounds = "every shipped rule derived from whitespace_between_tokens.Rule that has its own fixture (all but a few of 171) on that fixture x operator in {N, >N, >=N, N+, <N, <=N} x N in 0..3 (quick: the rules whose index = VERIF_SEED mod 8, thorough: all)"
    outside = "gap widths other than those in the fixtures; N > 3; interaction of two whitespace rules on one gap (L08/L10 under the option sweeps)"

    def params(self, tier):
        import os

        rules = _ws_rules()
        if tier == "quick":
            s = int(os.environ.get("VERIF_SEED", "0") or 0) % 8
            rules = rules[s::8]
        return [{"rule": u, "fixture": f} for u, f in rules]

    def shard_target(self, p):
        return 4

    def run(self, eng, p):
        from vsg import rule_list, tokens as tokens_mod, vhdlFile as vhdlFile_pkg

        from .lfam import get_conf, read_fixture

        ops = ["%d", ">%d", ">=%d", "%d+", "<%d", "<=%d"]
        op = ops[eng.choose("op", len(ops))]
        n = int(eng.choose("n", 4))
        spelling = n if op == "%d" else op % n
        zero_allowed = (op == "%d" and n == 0) or (op == "<%d" and n <= 1) or (op == "<=%d" and n == 0)
        if op == "<%d" and n == 0:
            return True  # '<0' asks for fewer than no blanks: not a meaningful configuration
        conf = get_conf("default")
        lines = read_fixture(p["fixture"])

        def load(ls):
            o = vhdlFile_pkg.vhdlFile(list(ls))
            o.set_indent_map(conf.dIndent)
            rl = rule_list.rule_list(o, conf.severity_list)
            rl.configure(conf)
            r = [x for x in rl.rules if x.unique_id == p["rule"]][0]
            r.number_of_spaces = spelling
            return o, r

        o, r = load(lines)
        if zero_allowed:
            for oToi in r._get_tokens_of_interest(o):
                lt = oToi.get_tokens()
                a, b = lt[0].get_value(), lt[-1].get_value()
                if [x for x in tokens_mod.create(a + b)] != [a, b]:
                    return True  # outside the claim, see assumptions
        r.fix(o)
        out = o.get_lines()[1:]
        cl = []
        cl.append(("C08:no_zero_width_token", not any(t.get_value() == "" and not isinstance(t, parser.blank_line) for t in o.lAllObjects)))
        o2, r2 = load(out)
        a = [(type(t).__name__, t.get_value()) for t in o.lAllObjects]
        b = [(type(t).__name__, t.get_value()) for t in o2.lAllObjects]
        cl.append(("C08:model_equals_fresh_parse_of_written_text", a == b))
        r.clear_violations()
        r.analyze(o)
        r2.analyze(o2)
        v1 = [(v.get_line_number(), v.get_solution()) for v in r.violations]
        v2 = [(v.get_line_number(), v.get_solution()) for v in r2.violations]
        cl.append(("C08:report_on_model_equals_report_on_fresh_parse", v1 == v2))
        cl.append(("C10:nothing_left_to_fix", v2 == []))
        return cl

    def describe(self, values, p):
        ops = ["%d", ">%d", ">=%d", "%d+", "<%d", "<=%d"]
        op, n = ops[values.get("op", 0)], values.get("n", 0)
        return {"rule": p["rule"], "fixture": p["fixture"], "number_of_spaces": n if op == "%d" else op % n}

    signature = staticmethod(_sig)


_OPT_RULES = []


def _opt_rules():
    """(unique_id, fixture, option, values) for every shipped rule that has its own corpus fixture and a string option with a domain
    readable from its source (lfam.option_domain)"""
    import os

    from vsg import rule_list, vhdlFile as vhdlFile_pkg

    from .lfam import CORPUS, get_conf, option_domain

    if not _OPT_RULES:
        o = vhdlFile_pkg.vhdlFile([""])
        rl = rule_list.rule_list(o, get_conf("default").severity_list)
        for r in rl.rules:
            if rule_list.is_rule_deprecated(r):
                continue
            f = "fixtures/%s__rule_%s_test_input.vhd" % (type(r).__module__.split(".")[-2], r.unique_id.rsplit("_", 1)[1])  # tests/<rule directory>/
            if not os.path.exists(os.path.join(CORPUS, f)):
                continue
            import re as _re

            for k in r.configuration:
                dom = option_domain(r, k)
                # values the rule's own documentation names ("<option> set to 'remove'") even when the source never spells them in a comparison
                if isinstance(getattr(r, k, None), str) and dom:
                    dom = sorted(set(dom) | set(_re.findall(r"%s set to '([A-Za-z_]+)'" % _re.escape(k), type(r).__doc__ or "")))
                if len(dom) > 1:
                    _OPT_RULES.append((r.unique_id, f, k, dom))
    return _OPT_RULES


@register
class K06c(Harness):
    name = "K06c"
    prop = "C06"
    props = ("C06", "C18")
    title = "analysing a file with one rule, under every value of each of the rule's own string options, leaves the tokens and the token index exactly as they were and reports the same when repeated (the rule's own fixture, real parser and real rule)"
    functions = ("vsg.rule.rule", "vsg.rules", "vsg.vhdlFile.vhdlFile", "vsg.vhdlFile.extract", "vsg.token_map")
    stubs = ()
    bounds = "every shipped rule with its own fixture and a string option whose domain can be read from the rule's source or its docstring (\"<option> set to '<value>'\") x every value of that domain (engine-forked), one option moved at a time, on that fixture (quick: the (rule, option) pairs whose index = VERIF_SEED mod 6, thorough: all)"
    outside = "two options moved together (L06 under the option sweeps flipI/flipJ); inputs other than the rule's fixture; option values not spelled in the rule's source"
    exception_props = ("C19",)

    def params(self, tier):
        import os

        rules = _opt_rules()
        if tier == "quick":
            s = int(os.environ.get("VERIF_SEED", "0") or 0) % 6
            rules = rules[s::6]
        return [{"rule": u, "fixture": f, "option": k, "values": list(d)} for u, f, k, d in rules]

    def shard_target(self, p):
        return 4

    def run(self, eng, p):
        from vsg import rule_list, vhdlFile as vhdlFile_pkg

        from .lfam import get_conf, map_snapshot, read_fixture, state_equal, tok_state

        val = p["values"][eng.choose("value", len(p["values"]))]
        conf = get_conf("default")
        o = vhdlFile_pkg.vhdlFile(list(read_fixture(p["fixture"])))
        o.set_indent_map(conf.dIndent)
        rl = rule_list.rule_list(o, conf.severity_list)
        rl.configure(conf)
        r = [x for x in rl.rules if x.unique_id == p["rule"]][0]
        setattr(r, p["option"], val)
        o.set_token_indent()
        s0, m0 = tok_state(o), map_snapshot(o)
        r.analyze(o)
        v1 = [(v.get_line_number(), v.get_solution()) for v in r.violations]
        s1, m1 = tok_state(o), map_snapshot(o)
        r.clear_violations()
        r.analyze(o)
        v2 = [(v.get_line_number(), v.get_solution()) for v in r.violations]
        return [("C06:analysis_leaves_tokens_untouched", state_equal(s0, s1)), ("C06:analysis_leaves_token_index_untouched", m0 == m1), ("C06:repeatable", v1 == v2)]

    def describe(self, values, p):
        return {"rule": p["rule"], "fixture": p["fixture"], "option": p["option"], "value": p["values"][values.get("value", 0)]}

    def signature(self, values, p, detail):
        if detail.get("kind") == "exception":
            return "exception:%s@%s.%s" % (detail.get("type"), p["rule"], p["option"])
        return "vc:" + ",".join(sorted(detail.get("failed", []))) + "@%s.%s" % (p["rule"], p["option"])
