"""C18 kernels - the token index (token_map.process_tokens + lookups) and extract.tokens.New mirror the token list."""
from sx import core
from sx.core import And, Or, Not, Implies, Iff, Eq, f_of
from sx.runner import Harness, register

from vsg import parser, token
from vsg.token_map import process_tokens
from vsg.vhdlFile.extract import tokens as xtokens

from .k13 import _sig

PALETTE = [
    ("ws", lambda: parser.whitespace(" ")),
    ("cr", lambda: parser.carriage_return()),
    ("comment", lambda: parser.comment("-- c")),
    ("A", lambda: token.signal_declaration.signal_keyword("signal")),
    ("B", lambda: token.signal_declaration.identifier("x")),
    ("comma", lambda: token.signal_declaration.comma(",") if hasattr(token.signal_declaration, "comma") else parser.comma(",")),
    ("blank", lambda: parser.blank_line()),
]
CLASSES = {"ws": parser.whitespace, "cr": parser.carriage_return, "comment": parser.comment, "A": token.signal_declaration.signal_keyword, "B": token.signal_declaration.identifier, "blank": parser.blank_line}


@register
class K18a(Harness):
    name = "K18a"
    prop = "C18"
    title = "token index lookups equal a linear scan of the token list"
    functions = ("vsg.token_map", "vsg.parser")
    stubs = ()
    bounds = "every token list of n<=5 (quick) / 6 (thorough) tokens over {whitespace, carriage_return, comment, two code classes, comma, blank_line} ending in a carriage return; symbolic query index"
    outside = "longer lists; get_token_pair_indexes (nesting) is exercised only through the L family"

    def params(self, tier):
        return [{"n": n} for n in ([2, 3, 4, 5] if tier == "quick" else [2, 3, 4, 5, 6])]

    def shard_target(self, p):
        return 64

    def run(self, eng, p):
        n = p["n"]
        kinds = [PALETTE[eng.choose("k%d" % i, len(PALETTE))][0] for i in range(n - 1)] + ["cr"]
        toks = [dict(PALETTE)[k]() for k in kinds]
        m = process_tokens(toks)
        q = int(eng.int("q", 0, n - 1))
        cl = []
        is_cr = [k == "cr" for k in kinds]
        cl.append(("line_number", m.get_line_number_of_index(q) == 1 + sum(1 for i in range(q) if is_cr[i])))
        nxt_cr = [i for i in range(n) if is_cr[i] and i > q]
        if nxt_cr:
            cl.append(("cr_after", m.get_index_of_carriage_return_after_index(q) == nxt_cr[0]))
        prev_cr = [i for i in range(n) if is_cr[i] and i < q]
        if prev_cr:
            cl.append(("cr_before", m.get_index_of_carriage_return_before_index(q) == prev_cr[-1]))
        for name, cls in CLASSES.items():
            idx = [i for i in range(n) if kinds[i] == name]
            cl.append(("indexes_" + name, list(m.get_token_indexes(cls)) == idx))
            cl.append(("is_at_" + name, m.is_token_at_index(cls, q) == (q in idx)))
            after = [i for i in idx if i > q]
            cl.append(("after_" + name, m.get_index_of_token_after_index(cls, q) == (after[0] if after else None)))
        nonws = [i for i in range(q + 1, min(n, q + 5)) if kinds[i] not in ("ws", "cr", "blank")]
        cl.append(("next_non_whitespace", m.get_index_of_next_non_whitespace_token(q) == (nonws[0] if nonws else None)))
        cl.append(("is_whitespace", m.is_token_at_index_whitespace(q) == (kinds[q] in ("ws", "cr", "blank"))))
        cl.append(("max_token", m.iMaxToken == n))
        return cl

    def describe(self, values, p):
        return {"kinds": [PALETTE[values.get("k%d" % i, 0)][0] for i in range(p["n"] - 1)] + ["cr"], "q": values.get("q"), "lo": values.get("lo"), "hi": values.get("hi"), "a": values.get("a"), "b": values.get("b")}

    signature = staticmethod(_sig)


@register
class K18b(Harness):
    name = "K18b"
    prop = "C18"
    title = "extract.tokens.New / extract_tokens: a (sub-)region of interest records the start index, end index and line where its tokens sit"
    functions = ("vsg.vhdlFile.extract.tokens", "vsg.parser")
    stubs = ()
    bounds = "every list of n<=5 (quick) / 6 (thorough) tokens over {carriage_return, code token} ending in a carriage return; every region [lo..hi] and sub-region [a..b] (symbolic indices)"
    outside = "longer lists"

    def params(self, tier):
        return [{"n": n} for n in ([2, 3, 4, 5] if tier == "quick" else [2, 3, 4, 5, 6])]

    def run(self, eng, p):
        n = p["n"]
        kinds = ["cr" if eng.bool("cr%d" % i) else "B" for i in range(n - 1)] + ["cr"]
        toks = [dict(PALETTE)[k]() for k in kinds]
        is_cr = [k == "cr" for k in kinds]
        cl = []
        lo = int(eng.int("lo", 0, n - 1))
        hi = int(eng.int("hi", 0, n - 1))
        if lo > hi:
            return True
        line = 1 + sum(1 for i in range(lo) if is_cr[i])
        oToi = xtokens.New(lo, line, toks[lo:hi + 1])
        cl.append(("toi_end_index", oToi.iEndIndex == hi + 1))
        a = int(eng.int("a", 0, n - 1))
        b = int(eng.int("b", 0, n - 1))
        if a <= b <= hi - lo:
            sub = oToi.extract_tokens(a, b)
            cl.append(("sub_toi_start", sub.iStartIndex == lo + a))
            cl.append(("sub_toi_tokens", all(x is y for x, y in zip(sub.lTokens, toks[lo + a:lo + b + 1])) and len(sub.lTokens) == b - a + 1))
            cl.append(("sub_toi_line", sub.iLine == 1 + sum(1 for i in range(lo + a) if is_cr[i])))
            cl.append(("sub_toi_end", sub.iEndIndex == lo + b + 1))
        return cl

    def describe(self, values, p):
        return {"kinds": ["cr" if values.get("cr%d" % i) else "B" for i in range(p["n"] - 1)] + ["cr"], "lo": values.get("lo"), "hi": values.get("hi"), "a": values.get("a"), "b": values.get("b")}

    signature = staticmethod(_sig)


@register
class K08b(Harness):
    name = "K08b"
    prop = "C08"
    props = ("C08", "C09", "C13")
    title = "the clean-up that follows the structural phase (vhdlFile.fix_blank_lines, fix_trailing_whitespace, update_token_map) leaves the model in the form a fresh parse of the written text has: no blank before a line break, every empty line a blank_line token, nothing else touched; applying it again changes nothing"
    functions = ("vsg.vhdlFile.vhdlFile", "vsg.vhdlFile.utils", "vsg.token_map", "vsg.parser")
    stubs = ("the model is a real vhdlFile object whose token list is replaced by the symbolic sequence",)
    bounds = "every token list 'code' + n<=5 (quick) / 6 (thorough) tokens over {whitespace, carriage_return, comment, code, blank_line} + carriage_return, that contains no blank_line token outside an empty line"
    outside = "longer lists; a file whose very first line is empty or blank (the helpers look at the token before index 0)"

    def params(self, tier):
        return [{"n": n} for n in ([1, 2, 3, 4, 5] if tier == "quick" else [1, 2, 3, 4, 5, 6])]

    def shard_target(self, p):
        return 64

    def run(self, eng, p):
        import vsg.vhdlFile.vhdlFile  # noqa: F401
        from vsg import vhdlFile as vhdlFile_pkg

        names = ["ws", "cr", "comment", "B", "blank"]
        n = p["n"]
        kinds = ["B"] + [names[eng.choose("k%d" % i, len(names))] for i in range(n)] + ["cr"]
        # well-formed input model: a blank_line token only as the sole content of a line; no two adjacent whitespace tokens
        for i, k in enumerate(kinds):
            if k == "blank" and not (kinds[i - 1] == "cr" and kinds[i + 1] == "cr"):
                return True
            if k == "ws" and kinds[i - 1] == "ws":
                return True
            if k == "comment" and kinds[i + 1] != "cr":
                return True
        toks = [dict(PALETTE)[k]() for k in kinds]
        o = vhdlFile_pkg.vhdlFile([""])
        o.lAllObjects = list(toks)
        o.update_token_map()

        # the indent refresh (run before phase 4, and instead of the clean-up when phase 1 is skipped) only writes indent attributes:
        # it must leave the token sequence alone, or work of a skipped phase would be done behind the user's back
        from .lfam import get_conf

        o.set_indent_map(get_conf("default").dIndent)
        before = list(o.lAllObjects)
        vals = [t.get_value() for t in before]
        o.set_token_indent()
        same = len(o.lAllObjects) == len(before) and all(x is y for x, y in zip(o.lAllObjects, before)) and [t.get_value() for t in o.lAllObjects] == vals
        pre = [("C13:indent_refresh_leaves_tokens_alone", same)]
        o.lAllObjects = list(toks)
        o.update_token_map()

        def cleanup():
            o.fix_blank_lines()
            o.fix_trailing_whitespace()
            o.update_token_map()

        cleanup()
        out = list(o.lAllObjects)
        kind = lambda t: "blank" if isinstance(t, parser.blank_line) else "cr" if isinstance(t, parser.carriage_return) else "ws" if isinstance(t, parser.whitespace) else "comment" if isinstance(t, parser.comment) else "B"
        ko = [kind(t) for t in out]
        cl = list(pre)
        cl.append(("C08:no_blank_before_line_break", not any(a == "ws" and b == "cr" for a, b in zip(ko, ko[1:]))))
        cl.append(("C08:empty_line_is_blank_line_token", not any(a == "cr" and b == "cr" for a, b in zip(ko, ko[1:]))))
        cl.append(("C08:blank_line_token_only_on_empty_line", all(ko[i - 1] == "cr" and ko[i + 1] == "cr" for i in range(len(ko)) if ko[i] == "blank")))
        solid = lambda L: [t for t in L if kind(t) in ("B", "comment")]
        cl.append(("C08:code_and_comments_untouched", len(solid(out)) == len(solid(toks)) and all(x is y for x, y in zip(solid(out), solid(toks)))))
        cl.append(("C08:line_count_kept", ko.count("cr") == kinds.count("cr")))
        fresh = process_tokens(out)
        cl.append(("C08:index_rebuilt", o.oTokenMap.iMaxToken == len(out) and list(o.oTokenMap.get_token_indexes(parser.carriage_return)) == list(fresh.get_token_indexes(parser.carriage_return)) and list(o.oTokenMap.get_token_indexes(parser.blank_line)) == list(fresh.get_token_indexes(parser.blank_line))))
        cleanup()
        k2 = [kind(t) for t in o.lAllObjects]
        cl.append(("C09:cleanup_is_idempotent", k2 == ko))
        return cl

    def describe(self, values, p):
        names = ["ws", "cr", "comment", "B", "blank"]
        return {"kinds": ["B"] + [names[values.get("k%d" % i, 0)] for i in range(p["n"])] + ["cr"]}

    signature = staticmethod(_sig)
