"""C18 kernels - the token index (token_map.process_tokens + lookups) and extract.tokens.New mirror the token list."""
from sx import core
from sx.core import And, Or, Not, Implies, Iff, Eq, f_of
from sx.runner import Harness, register

from vsg import parser, token
from vsg.token_map import process_tokens
from vsg.vhdlFile.extract import tokens as xtokens

from .k13 import _sig

PALETTE = [
    ("ws", lambda: parser.whitespace(" ")),
    ("cr", lambda: parser.carriage_return()),
    ("comment", lambda: parser.comment("-- c")),
    ("A", lambda: token.signal_declaration.signal_keyword("signal")),
    ("B", lambda: token.signal_declaration.identifier("x")),
    ("comma", lambda: token.signal_declaration.comma(",") if hasattr(token.signal_declaration, "comma") else parser.comma(",")),
    ("blank", lambda: parser.blank_line()),
]
CLASSES = {"ws": parser.whitespace, "cr": parser.carriage_return, "comment": parser.comment, "A": token.signal_declaration.signal_keyword, "B": token.signal_declaration.identifier, "blank": parser.blank_line}


@register
class K18a(Harness):
    name = "K18a"
    prop = "C18"
    title = "token index lookups equal a linear scan of the token list"
    functions = ("vsg.token_map", "vsg.parser")
    stubs = ()
    bounds = "every token list of n<=5 (quick) / 6 (thorough) tokens over {whitespace, carriage_return, comment, two code classes, comma, blank_line} ending in a carriage return; symbolic query index"
    outside = "longer lists; get_token_pair_indexes (nesting) is exercised only through the L family"

    def params(self, tier):
        return [{"n": n} for n in ([2, 3, 4, 5] if tier == "quick" else [2, 3, 4, 5, 6])]

    def shard_target(self, p):
        return 64

    def run(self, eng, p):
        n = p["n"]
        kinds = [PALETTE[eng.choose("k%d" % i, len(PALETTE))][0] for i in range(n - 1)] + ["cr"]
        toks = [dict(PALETTE)[k]() for k in kinds]
        m = process_tokens(toks)
        q = int(eng.int("q", 0, n - 1))
        cl = []
        is_cr = [k == "cr" for k in kinds]
        cl.append(("line_number", m.get_line_number_of_index(q) == 1 + sum(1 for i in range(q) if is_cr[i])))
        nxt_cr = [i for i in range(n) if is_cr[i] and i > q]
        if nxt_cr:
            cl.append(("cr_after", m.get_index_of_carriage_return_after_index(q) == nxt_cr[0]))
        prev_cr = [i for i in range(n) if is_cr[i] and i < q]
        if prev_cr:
            cl.append(("cr_before", m.get_index_of_carriage_return_before_index(q) == prev_cr[-1]))
        for name, cls in CLASSES.items():
            idx = [i for i in range(n) if kinds[i] == name]
            cl.append(("indexes_" + name, list(m.get_token_indexes(cls)) == idx))
            cl.append(("is_at_" + name, m.is_token_at_index(cls, q) == (q in idx)))
            after = [i for i in idx if i > q]
            cl.append(("after_" + name, m.get_index_of_token_after_index(cls, q) == (after[0] if after else None)))
        nonws = [i for i in range(q + 1, min(n, q + 5)) if kinds[i] not in ("ws", "cr", "blank")]
        cl.append(("next_non_whitespace", m.get_index_of_next_non_whitespace_token(q) == (nonws[0] if nonws else None)))
        cl.append(("is_whitespace", m.is_token_at_index_whitespace(q) == (kinds[q] in ("ws", "cr", "blank"))))
        cl.append(("max_token", m.iMaxToken == n))
        return cl

    def describe(self, values, p):
        return {"kinds": [PALETTE[values.get("k%d" % i, 0)][0] for i in range(p["n"] - 1)] + ["cr"], "q": values.get("q"), "lo": values.get("lo"), "hi": values.get("hi"), "a": values.get("a"), "b": values.get("b")}

    signature = staticmethod(_sig)


@register
class K18b(Harness):
    name = "K18b"
    prop = "C18"
    title = "extract.tokens.New / extract_tokens: a (sub-)region of interest records the start index, end index and line where its tokens sit"
    functions = ("vsg.vhdlFile.extract.tokens", "vsg.parser")
    stubs = ()
    bounds = "every list of n<=5 (quick) / 6 (thorough) tokens over {carriage_return, code token} ending in a carriage return; every region [lo..hi] and sub-region [a..b] (symbolic indices)"
    outside = "longer lists"

    def params(self, tier):
        return [{"n": n} for n in ([2, 3, 4, 5] if tier == "quick" else [2, 3, 4, 5, 6])]

    def run(self, eng, p):
        n = p["n"]
        kinds = ["cr" if eng.bool("cr%d" % i) else "B" for i in range(n - 1)] + ["cr"]
        toks = [dict(PALETTE)[k]() for k in kinds]
        is_cr = [k == "cr" for k in kinds]
        cl = []
        lo = int(eng.int("lo", 0, n - 1))
        hi = int(eng.int("hi", 0, n - 1))
        if lo > hi:
            return True
        line = 1 + sum(1 for i in range(lo) if is_cr[i])
        oToi = xtokens.New(lo, line, toks[lo:hi + 1])
        cl.append(("toi_end_index", oToi.iEndIndex == hi + 1))
        a = int(eng.int("a", 0, n - 1))
        b = int(eng.int("b", 0, n - 1))
        if a <= b <= hi - lo:
            sub = oToi.extract_tokens(a, b)
            cl.append(("sub_toi_start", sub.iStartIndex == lo + a))
            cl.append(("sub_toi_tokens", all(x is y for x, y in zip(sub.lTokens, toks[lo + a:lo + b + 1])) and len(sub.lTokens) == b - a + 1))
            cl.append(("sub_toi_line", sub.iLine == 1 + sum(1 for i in range(lo + a) if is_cr[i])))
            cl.append(("sub_toi_end", sub.iEndIndex == lo + b + 1))
        return cl

    def describe(self, values, p):
        return {"kinds": ["cr" if values.get("cr%d" % i) else "B" for i in range(p["n"] - 1)] + ["cr"], "lo": values.get("lo"), "hi": values.get("hi"), "a": values.get("a"), "b": values.get("b")}

    signature = staticmethod(_sig)
