"""C14 - exit status and report formats agree: real rule_list.report_violations / extract_violation_dictionary /
extract_junit_testcase, rule.get_violations, report.vsg_stdout / syntastic_stdout / summary_stdout, quality_report.build_report,
junit.*.build_junit, severity.create_list; plus the exit-status aggregation of apply_rules.apply_rules and __main__.main."""
import sys

from sx import core
from sx.core import And, Or, Not, Implies, Iff, Eq, f_of
from sx.runner import Harness, register

import vsg.__main__  # noqa: F401
import vsg.apply_rules as AR
from vsg import exceptions, junit, severity
from vsg.report import quality_report

from .k13 import _sig
from .stubs import StubRule, StubFile, make_rule_list

MAINMOD = sys.modules["vsg.__main__"]
SEVS = [("Error", "error"), ("Warning", "warning"), ("Custom", "error"), ("Note", "warning")]
SEV_CONF = {"severity": {"Custom": {"type": "error"}, "Note": {"type": "warning"}}}
FNAME = "dir/file.vhd"
SOL = "fix <me> & \"it\""


class SevRule(StubRule):
    """severity is one of four (two built in, two user defined), chosen lazily"""

    def __init__(self, eng, i, sevlist, **k):
        self.sevlist = sevlist
        super().__init__(eng, i, sev="error", **k)
        self.sev_idx = eng.int("sev%d" % i, 0, 3)

    @property
    def severity(self):
        if getattr(self, "_sev", None) is None and hasattr(self, "sev_idx"):
            self._sev = self.sevlist.get_severity_named(SEVS[int(self.sev_idx)][0])
        return self._sev

    @severity.setter
    def severity(self, v):
        pass

    def _analyze(self, lToi):
        from vsg import violation

        for oToi in lToi:
            self.add_violation(violation.New(oToi.get_line_number(), oToi, SOL))

    def f_iserr_(self):
        return Or(f_of(self.sev_idx == 0), f_of(self.sev_idx == 2))


def count_eq(A, B):
    """multiset equality of two short lists of tuples with symbolic components"""
    if len(A) != len(B):
        return False
    cl = []
    for a in A:
        na = core.Sum([core.If(Eq(a, x), 1, 0) for x in A])
        nb = core.Sum([core.If(Eq(a, y), 1, 0) for y in B])
        cl.append(Eq(na, nb))
    return And(cl)


def _strip(s):
    return s.strip() if isinstance(s, (str, core.SymStr)) else s


@register
class K14a(Harness):
    name = "K14a"
    prop = "C14"
    title = "standard, syntastic, summary, JSON, JUnit and quality-report outputs are consistent projections of one violation set; printed counts equal listed entries"
    functions = ("vsg.rule_list", "vsg.rule", "vsg.report", "vsg.junit", "vsg.severity", "vsg.utils")
    stubs = ("rules are StubRules with symbolic severity (Error, Warning, user-defined error-type, user-defined warning-type), 0..2 violations each on symbolic lines 1..9",
             "quality_report.build_fingerprint (md5 over the entry) replaced by a constant", "junit timestamp/hostname not inspected")
    bounds = "2 rules (3 thorough) x 0..2 violations x line 1..9 x 4 severities; solution text fixed and containing XML metacharacters"
    outside = "free-form solution text; multi-digit line numbers; XML well-formedness beyond entity escaping"

    def params(self, tier):
        return [{"K": 1}, {"K": 2}] if tier == "quick" else [{"K": 1}, {"K": 2}, {"K": 3, "nv": 1}]

    def run(self, eng, p):
        K = p["K"]
        sevlist = severity.create_list(SEV_CONF)
        oFile = StubFile()
        oFile.filename = FNAME
        rules = [SevRule(eng, i, sevlist, phases=(1, 1), subphases=(1, 1), max_viol=p.get("nv", 2), lines=(1, 9), sym_fixable=False, sym_disable=False) for i in range(K)]
        rl = make_rule_list(rules, oFile)
        rl.oSeverityList = sevlist
        rl.check_rules(bAllPhases=True, lSkipPhase=[])
        # the one violation set S
        S = []
        for r in rules:
            n = len(r.violations)
            sname, stype = SEVS[int(r.sev_idx)]
            for j in range(n):
                S.append((r.unique_id, r.vlines[j], SOL, sname, stype))
        clauses = []
        nerr = sum(1 for s in S if s[4] == "error")
        clauses.append(("exit_flag", bool(rl.violations) == (nerr > 0)))

        # ---- standard format
        std, err = rl.report_violations("vsg")
        lines = std.split("\n")
        rows = []
        total = None
        sevcount = {}
        seen_header = False
        for ln in lines:
            if " | " in ln:
                f = ln.split(" | ")
                if _strip(f[0]) == "Rule":
                    seen_header = True
                    continue
                rows.append((_strip(f[0]), _strip(f[2]), f[3], _strip(f[1])))
            elif ln.startswith("Total Violations:"):
                total = int(ln.split(":")[1])
            else:
                for sname, _ in SEVS:
                    if ln.startswith("  " + sname) and ":" in ln:
                        sevcount[sname] = int(ln.split(":")[1])
        from sx.instrument import sx_str

        expect_rows = [(s[0], sx_str(s[1]), s[2], s[3]) for s in S]
        clauses.append(("vsg_rows", count_eq(rows, expect_rows)))
        clauses.append(("vsg_total", total == len(S)))
        for sname, _ in SEVS:
            clauses.append(("vsg_count_" + sname, sevcount.get(sname) == sum(1 for s in S if s[3] == sname)))

        # ---- syntastic
        std, err = rl.report_violations("syntastic")
        rows = []
        if std:
            for ln in std.split("\n"):
                parts = ln.split(": ")
                kind = parts[0]
                rest = core.sx_join(": ", parts[1:])
                head, sol = rest.split(" -- ")[0], core.sx_join(" -- ", rest.split(" -- ")[1:])
                fname, tail = head.split("(")[0], head.split("(")[1]
                lineno, rid = tail.split(")")[0], tail.split(")")[1]
                rows.append((rid, lineno, sol, kind, fname))
        expect_rows = [(s[0], sx_str(s[1]), s[2], "ERROR" if s[4] == "error" else "WARNING", FNAME) for s in S]
        clauses.append(("syntastic_rows", count_eq(rows, expect_rows)))

        # ---- summary
        std, err = rl.report_violations("summary")
        text = std if std is not None else err
        for sname, _ in SEVS:
            key = "[" + sname + ": "
            i = text.find(key)
            val = int(text[i + len(key): text.find("]", i)]) if i >= 0 else None
            clauses.append(("summary_count_" + sname, val == sum(1 for s in S if s[3] == sname)))

        word_error = " ERROR " in text
        clauses.append(("summary_says_error_only_with_error_violation", Implies(word_error, nerr > 0)))
        clauses.append(("summary_error_goes_to_stderr", (std is None) == word_error))
        only_builtin = all(s[3] in ("Error", "Warning") for s in S)
        clauses.append(("summary_word_builtin_severities", Implies(only_builtin, word_error == (nerr > 0))))

        # ---- JSON entry
        dj = rl.extract_violation_dictionary()["violations"]
        got = [(d["rule"], d["linenumber"], d["solution"], d["severity"]) for d in dj]
        clauses.append(("json_rows", count_eq(got, [(s[0], s[1], s[2], s[3]) for s in S])))

        # ---- JUnit: error-type severities only
        tc = rl.extract_junit_testcase(FNAME)
        xml = tc.build_junit()
        body = [x for x in xml if not _strip(x).startswith("<")]
        got = []
        for x in body:
            t = _strip(x)
            parts = t.split(" : ")
            rid, ln_ = parts[0].split(": ")[0], parts[0].split(": ")[1]
            got.append((rid, ln_, core.sx_join(" : ", parts[1:])))
        want = [(s[0], sx_str(s[1]), junit.escape_xml_characters(s[2])) for s in S if s[4] == "error"]
        clauses.append(("junit_rows", count_eq(got, want)))
        clauses.append(("junit_failure_iff_error", (tc.failures is not None) == (nerr > 0)))

        # ---- GitLab quality report
        saved = quality_report.build_fingerprint
        quality_report.build_fingerprint = lambda *a: "fp"
        try:
            rep = quality_report.build_report({"files": [{"file_path": FNAME, "violations": dj}]})
        finally:
            quality_report.build_fingerprint = saved
        got = [(e["description"], e["location"]["lines"]["begin"], e["location"]["path"], e["severity"]) for e in rep]
        want = [(s[0] + " :: " + s[2], s[1], FNAME, "critical" if s[3] == "Error" else "minor") for s in S]
        clauses.append(("quality_rows", count_eq(got, want)))
        return clauses

    signature = staticmethod(_sig)


class CLA:
    local_rules = None
    fix_phase = 7
    skip_phase = []
    output_format = "vsg"
    junit = None
    json = "out.json"
    quality_report = None
    backup = False
    stdin = False
    jobs = 1
    output_configuration = None
    rule_configuration = None
    style = None
    configuration = None
    debug = False
    fix_only = None
    version = False


class SysExit(Exception):
    def __init__(self, code):
        self.code = code


@register
class K14b(Harness):
    name = "K14b"
    prop = "C14"
    props = ("C14", "C13", "C15", "C08", "C19")
    title = "process exit status is 0 iff no file has an error-severity violation and no file failed to parse/configure; the report after --fix is the gated report; results are independent of jobs and order"
    functions = ("vsg.__main__", "vsg.apply_rules", "vsg.rule_list", "vsg.rule")
    stubs = ("argument parser, config.New, vhdlFile construction and rule loading replaced: per file a symbolic parse error / config error flag and 2 StubRules",
             "multiprocessing.Pool.imap = its documented contract (lazy, results in submission order)", "json/junit file writing captured in memory")
    bounds = "1..2 files x {parse error, config error, 2 rules with symbolic phase 1..3, severity type, 0..1 violations}; --fix / --all_phases / jobs in {1,2} symbolic"
    outside = "real process pools, pickling, OS scheduling"
    exception_props = ("C14", "C19")

    def params(self, tier):
        return [{"F": 1, "pmax": 3}, {"F": 2, "pmax": 2}] if tier == "quick" else [{"F": 1, "pmax": 7}, {"F": 2, "pmax": 3}, {"F": 3, "simple": True}]

    def run(self, eng, p):
        F = p["F"]
        names = ["f%d.vhd" % i for i in range(F)]
        cla = CLA()
        cla.filename = list(names)
        cla.fix = eng.bool("fix")
        cla.all_phases = eng.bool("ap")
        jobs2 = eng.bool("jobs2")
        cla.jobs = 2 if jobs2 else 1
        files = {}
        for i, n in enumerate(names):
            files[n] = {
                "parse_error": eng.bool("parse_error%d" % i),
                "config_error": eng.bool("config_error%d" % i) if not p.get("simple") else False,
                "rules": None,
                "i": i,
            }

        def mk_rules(i):
            return [StubRule(eng, 10 * i + j, phases=(1, p.get("pmax", 3)) if not p.get("simple") else (1, 1), subphases=(1, 1), max_viol=1, lines=(1, 1), sym_fixable=False, sym_disable=False) for j in range(2 if not p.get("simple") else 1)]

        class VF:
            class utils:
                @staticmethod
                def read_vhdlfile(name):
                    return ["x"], None

            @staticmethod
            def vhdlFile(content, cl=None, sFileName=None, *a, **k):
                if files[sFileName]["parse_error"]:
                    raise exceptions.ClassifyError("Error: Unexpected token detected while parsing architecture_body @ Line 1, Column 1 in file " + sFileName)
                o = StubFile()
                o.filename = sFileName
                o.set_indent_map = lambda d: None
                o.get_lines = lambda: ["", "x"]
                return o

        class RL:
            @staticmethod
            def rule_list(oVhdlFile, sev, local=None):
                f = files[oVhdlFile.filename]
                f["rules"] = mk_rules(f["i"])
                rl = make_rule_list(f["rules"], oVhdlFile)
                real = rl.configure

                def configure(oConfig):
                    if f["config_error"]:
                        raise exceptions.ConfigurationError("ERROR: Rule nope_001 referenced in configuration could not be found")
                    return real(oConfig)

                rl.configure = configure
                f["rl"] = rl
                return rl

        class Cfg:
            dIndent = {}
            dFixOnly = None
            dConfig = {}
            severity_list = severity.create_list({})

        class FakePool:
            def __init__(self, n):
                pass

            def __enter__(self):
                return self

            def __exit__(self, *a):
                return False

            def imap(self, f, it):
                for x in it:
                    yield f(x)

        written = {}
        printed = []

        class FakeFile:
            def __init__(self, name):
                self.name = name
                written[name] = ""

            def write(self, s):
                written[self.name] += s

            def __enter__(self):
                return self

            def __exit__(self, *a):
                return False

        def fake_exit(code):
            raise SysExit(code)

        M = MAINMOD
        saved = (AR.vhdlFile, AR.rule_list, AR.write_vhdl_file, M.cmd_line_args, M.config, M.multiprocessing, M.sys, M.version, M.__dict__.get("open"), M.__dict__.get("print"))

        class Obj:
            pass

        cmd = Obj()
        cmd.parse_command_line_arguments = lambda: cla
        cfgm = Obj()
        cfgm.New = lambda c: Cfg()
        mp = Obj()
        mp.Pool = FakePool
        sysm = Obj()
        sysm.exit = fake_exit
        sysm.stderr = "stderr"
        sysm.path = []
        ver = Obj()
        ver.print_version = lambda c: None
        wrote_vhdl = []
        AR.vhdlFile, AR.rule_list = VF, RL
        AR.write_vhdl_file = lambda o, c: wrote_vhdl.append(o.filename)
        M.cmd_line_args, M.config, M.multiprocessing, M.sys, M.version = cmd, cfgm, mp, sysm, ver
        M.open = lambda name, mode="r": FakeFile(name)
        M.print = lambda *a, **k: printed.append((" ".join(str(x) for x in a), "err" if k.get("file") == "stderr" else "out"))
        code = None
        try:
            try:
                M.main()
            except SysExit as e:
                code = e.code
        finally:
            AR.vhdlFile, AR.rule_list, AR.write_vhdl_file, M.cmd_line_args, M.config, M.multiprocessing, M.sys, M.version = saved[:8]
            for nm, old in (("open", saved[8]), ("print", saved[9])):
                if old is None:
                    M.__dict__.pop(nm, None)
                else:
                    M.__dict__[nm] = old

        # reference
        import json as _json

        clauses = []
        processed = []
        stop = False
        for n in names:
            if stop:
                break
            processed.append(n)
            if files[n]["config_error"] and not files[n]["parse_error"]:
                stop = True  # documented: a configuration error ends the run
        any_bad = False
        for n in processed:
            f = files[n]
            if f["parse_error"] or f["config_error"]:
                any_bad = True
                continue
            rules = f["rules"]
            # first failing phase among this file's rules (gated report)
            fails = [And(r.f_iserr, r.f_has()) for r in rules]
            any_bad = Or(any_bad, Or(fails))
            for r in rules:
                earlier = Or([And(fl, f_of(q.phase < r.phase)) for fl, q in zip(fails, rules)])
                reported = And(r.f_has(), Or(f_of(cla.all_phases), Not(earlier)))
                clauses.append(("C13:report_is_gated_%s" % r.unique_id, Iff(len(r.violations) == 1, reported)))
                # what is reported at the end of a --fix run is what a fresh check would report: each violation once
                clauses.append(("C08:reported_once_%s" % r.unique_id, Eq(len(r.violations), core.If(reported, 1, 0))))
        clauses.append(("C14:exit_status", Iff(bool(code), any_bad)))
        # JSON: one entry per processed file, in command-line order
        doc = _json.loads(written.get("out.json", "{}") or "{}") if all(isinstance(v, str) for v in written.values()) else None
        if doc is not None:
            paths = [e.get("file_path") for e in doc.get("files", [])]
            clauses.append(("C15:json_order", paths == processed))
            for e in doc.get("files", []):
                f = files[e["file_path"]]
                if not (f["parse_error"] or f["config_error"]):
                    want = sum(len(r.violations) for r in f["rules"])
                    clauses.append(("C14:json_count_%s" % e["file_path"], len(e["violations"]) == want))
        # the standard output of each analysed file: the counts in its header equal the rows listed below it and the JSON entries
        import re as _re

        jcount = {e.get("file_path"): len(e.get("violations", [])) for e in (doc or {}).get("files", [])}
        for text, chan in printed:
            m = _re.search(r"^File:  (\S+)$", text, _re.M)
            t = _re.search(r"^Total Violations:\s+(\d+)$", text, _re.M)
            if chan != "out" or not m or not t or m.group(1) not in files:
                continue
            rows = _re.findall(r"^  stub_\d+\s+\|\s+(\S+)\s+\|", text, _re.M)
            ok = int(t.group(1)) == len(rows)
            for name, cnt in _re.findall(r"^  (\S+)\s+:\s+(\d+)$", text, _re.M):
                ok = ok and int(cnt) == sum(1 for x in rows if x == name)
            if doc is not None and m.group(1) in jcount:
                ok = ok and jcount[m.group(1)] == len(rows)
            clauses.append(("C14:printed_counts_equal_rows_%s" % m.group(1), ok))
        # printed blocks in command-line order
        seen = []
        for text, _ in printed:
            for n in names:
                if n in text and (not seen or seen[-1] != n):
                    seen.append(n)
        clauses.append(("C15:print_order", seen == [n for n in processed if n in seen]))
        return clauses

    signature = staticmethod(_sig)
