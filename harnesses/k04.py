"""C04 - reading is lossless; a clean file is never rewritten."""
from sx import core
from sx.runner import Harness, register

from vsg import tokens


@register
class K04a(Harness):
    name = "K04a"
    prop = "C04"
    title = "tokens.create(s) only regroups characters: ''.join(create(s)) == s"
    functions = ("vsg.tokens",)
    bounds = "every string s of exactly N characters over code points U+0000..U+00FF except LF/CR; N<=2 quick, N<=3 thorough (N=4 with VERIF_DEEP=1)"
    outside = "strings longer than N; code points above U+00FF"
    assumptions = ("a line handed to tokens.create contains no LF/CR (vhdlFile._processFile strips them)",)

    def params(self, tier):
        ns = [0, 1, 2] if tier == "quick" else [0, 1, 2, 3]
        return [{"N": n} for n in ns]

    def run(self, eng, p):
        s = eng.str("s", p["N"])
        toks = tokens.create(s)
        joined = core.sx_join("", toks)
        ok = core.Eq(joined, s)
        # every token is a non-empty string except possibly a single trailing ''
        return ok

    def describe(self, values, p):
        return {"s": "".join(chr(values.get("s[%d]" % i, 32)) for i in range(p["N"]))}

    def signature(self, values, p, detail):
        if detail.get("kind") == "exception":
            return "exception:%s@%s" % (detail.get("type"), __import__("re").sub(r":\d+:", ":", (detail.get("where") or ["?"])[-1]))
        return "roundtrip"


import sys

import vsg.vhdlFile.vhdlFile  # noqa: F401,E402
from vsg import parser  # noqa: E402
from vsg.token import delimited_comment  # noqa: E402

VFM = sys.modules["vsg.vhdlFile.vhdlFile"]


@register
class K04c(Harness):
    name = "K04c"
    prop = "C04"
    title = "line pipeline: tokens.create + blank/whitespace/comment/preprocessor/pragma classification of one line give back the line, inside and outside a delimited comment"
    functions = ("vsg.tokens", "vsg.vhdlFile.vhdlFile", "vsg.vhdlFile.classify.blank", "vsg.vhdlFile.classify.whitespace", "vsg.vhdlFile.classify.comment", "vsg.vhdlFile.classify.preprocessor", "vsg.vhdlFile.classify.pragma", "vsg.parser")
    stubs = ("design_file.tokenize and the post passes (token assignments, hierarchy, todo/aggregate tokens, code tags) are skipped: what runs is vhdlFile._processFile's per-line loop and get_lines",)
    bounds = "a two-line file: concrete first line that does / does not open a delimited comment, second line = every string of N characters (N<=2 quick, <=3 thorough) over U+0000..U+00FF except LF/CR, and 7 (12) templates of comment / string / character-literal delimiters with 2 (3) symbolic characters in between; default pragma patterns (symbolic regex matcher)"
    outside = "longer lines; interaction of three or more lines"
    assumptions = K04a.assumptions

    TEMPLATES2 = ["/*{}*/ /*{}*/", "{}/*x*/{}", '"{}" "{}"', "--{}/*{}", "/*a*/{}/*{}", "*/{}/*{}*/", "x'{}'{}"]
    TEMPLATES3 = ["/*{}*/{}/*{}*/", "{}/*{}*/{}", '"{}"{}"{}"', "'{}'{}'{}'", "{}--{}*/{}"]

    def params(self, tier):
        out = [{"N": n, "open": o} for n in ([0, 1, 2] if tier == "quick" else [0, 1, 2, 3]) for o in (False, True)]
        # longer lines: fixed delimiters with 2 (quick) / 3 (thorough) symbolic characters in between
        for t in self.TEMPLATES2 + (self.TEMPLATES3 if tier == "thorough" else []):
            for o in (False, True):
                out.append({"template": t, "N": t.count("{}"), "open": o})
        return out

    def run(self, eng, p):
        if "template" in p:
            parts = p["template"].split("{}")
            line = parts[0]
            for i, rest in enumerate(parts[1:]):
                line = line + eng.str("s%d" % i, 1) + rest
        else:
            line = eng.str("s", p["N"])
        first = "/* x" if p["open"] else "-- y"
        saved = (VFM.design_file, VFM.post_token_assignments, VFM.set_token_hierarchy_value, VFM.set_todo_tokens, VFM.set_aggregate_tokens, VFM.set_code_tags)

        class DF:
            @staticmethod
            def tokenize(l):
                return None

        VFM.design_file = DF
        VFM.post_token_assignments = VFM.set_token_hierarchy_value = VFM.set_todo_tokens = VFM.set_aggregate_tokens = VFM.set_code_tags = lambda l: None
        try:
            o = VFM.vhdlFile([first, line])
        finally:
            (VFM.design_file, VFM.post_token_assignments, VFM.set_token_hierarchy_value, VFM.set_todo_tokens, VFM.set_aggregate_tokens, VFM.set_code_tags) = saved
        lines = o.get_lines()
        clauses = [("line_count", len(lines) == 3), ("first_line_kept", core.Eq(lines[1], first))]
        if len(lines) == 3:
            clauses.append(("line_roundtrip", core.Eq(lines[2], line)))
        clauses.append(("tokens_are_items_with_text", all(isinstance(t, parser.item) and isinstance(t.value, (str, core.SymStr)) for t in o.lAllObjects)))
        return clauses

    def describe(self, values, p):
        if "template" in p:
            parts = p["template"].split("{}")
            line = parts[0] + "".join(chr(values.get("s%d[0]" % i, 32)) + rest for i, rest in enumerate(parts[1:]))
        else:
            line = "".join(chr(values.get("s[%d]" % i, 32)) for i in range(p["N"]))
        return {"first_line": "/* x" if p["open"] else "-- y", "second_line": line}

    def signature(self, values, p, detail):
        if detail.get("kind") == "exception":
            return "exception:%s@%s" % (detail.get("type"), __import__("re").sub(r":\d+:", ":", (detail.get("where") or ["?"])[-1]))
        s = self.describe(values, p)["second_line"]
        shape = "".join("/" if c == "/" else "*" if c == "*" else "w" if c.isspace() else "x" for c in s)
        return "vc:%s:%s:%s" % (",".join(sorted(detail.get("failed", []))), "in_comment" if p["open"] else "plain", shape)


import os
import tempfile

from vsg.vhdlFile import utils as vf_utils


@register
class K04f(Harness):
    name = "K04f"
    prop = "C04"
    props = ("C04", "C16", "C15")
    title = "read_vhdlfile returns every line of the file exactly once, for UTF-8 and legacy (ISO-8859-1) content, wherever the first non-ASCII byte sits relative to the read buffer"
    functions = ("vsg.vhdlFile.utils",)
    stubs = ("real files in a scratch directory under /verif/.scratch (the decoding is done by CPython's file object, not by proxies)",)
    bounds = "file = n lines of ASCII comments (n such that the file is about 20 KiB) with one non-ASCII character at a byte offset out of {none, 5, 4095, 8190, 8191, 8192, 8193, 12000, 16384, last}; encoding in {utf-8, iso-8859-1}; LF or CRLF; final newline present or not (engine-forked)"
    outside = "other encodings; files larger than 20 KiB"

    def params(self, tier):
        return [{}]

    def run(self, eng, p):
        enc = ["utf-8", "iso-8859-1"][eng.choose("encoding", 2)]
        offs = [None, 5, 4095, 8190, 8191, 8192, 8193, 12000, 16384, -1]
        off = offs[eng.choose("offset", len(offs))]
        crlf = eng.bool("crlf")
        final_nl = eng.bool("final_newline")
        lines = ["-- line %04d of a header comment that is long enough" % i for i in range(400)]
        special = ["", "\x0c", "\x0b", "\x1c", "\x85", "\u2028"][eng.choose("special_char", 6)]
        if special and (enc == "utf-8" or ord(special) < 256):
            lines[3] = "-- page" + special + "break"
        text = ("\r\n" if crlf else "\n").join(lines) + (("\r\n" if crlf else "\n") if final_nl else "")
        if off is not None:
            k = len(text) - 3 if off == -1 else off
            while text[k] in "\r\n":
                k += 1
            text = text[:k] + "\xe9" + text[k + 1:]
        data = text.encode(enc)
        want = text.split("\n")
        if want and want[-1] == "":
            want = want[:-1]
        want = [w.rstrip("\r") for w in want]
        d = os.path.join(os.path.dirname(os.path.dirname(os.path.abspath(__file__))), ".scratch")
        os.makedirs(d, exist_ok=True)
        fd, path = tempfile.mkstemp(suffix=".vhd", dir=d)
        try:
            with os.fdopen(fd, "wb") as f:
                f.write(data)
            got, err = vf_utils.read_vhdlfile(path)
            # the same bytes through the --stdin channel (sys.stdin as a text stream over them)
            import io
            import sys as _s

            saved = vf_utils.sys
            class _Sys:
                stdin = io.TextIOWrapper(io.BytesIO(data), encoding=enc, newline=None)
            vf_utils.sys = _Sys
            try:
                got_stdin, err2 = vf_utils.read_vhdlfile("stdin")
            finally:
                vf_utils.sys = saved
        finally:
            os.unlink(path)
        return [("no_error", err is None), ("every_line_once", list(got) == want), ("C15:stdin_reads_the_same_lines", list(got_stdin) == list(got))]

    def describe(self, values, p):
        return {"encoding": ["utf-8", "iso-8859-1"][values.get("encoding", 0)], "offset_choice": values.get("offset"), "crlf": values.get("crlf"), "final_newline": values.get("final_newline")}

    def signature(self, values, p, detail):
        if detail.get("kind") == "exception":
            return "exception:%s@%s" % (detail.get("type"), __import__("re").sub(r":\d+:", ":", (detail.get("where") or ["?"])[-1]))
        return "vc:" + ",".join(detail.get("failed", []))


@register
class K04g(Harness):
    name = "K04g"
    prop = "C04"
    title = "the classifier's token builders that split one lexical token into several (selected names of use clauses and context references) keep its text: emitting the parsed file gives back the lines read, for every number of name parts"
    functions = ("vsg.vhdlFile.classify.utils", "vsg.vhdlFile.classify.use_clause", "vsg.vhdlFile.classify.context_reference", "vsg.vhdlFile.vhdlFile", "vsg.tokens")
    bounds = "a design file 'library work; use <name>;' resp. 'library work; context <name>;' whose selected name has 2..5 (use) / 1..5 (context) parts, each part drawn from {work, P2, all}, the last part of a use name also an operator symbol (\"and\"); thorough adds a second name (2..4 parts) in the same use clause"
    outside = "longer names; selected names elsewhere in the grammar (they stay one token: K04a/L04)"
    allowed_exceptions = ()

    def params(self, tier):
        return [{"which": "use"}, {"which": "context"}] if tier == "quick" else [{"which": "use"}, {"which": "context"}, {"which": "use", "two": True}]

    def shard_target(self, p):
        return 32

    def run(self, eng, p):
        import vsg.vhdlFile.vhdlFile  # noqa: F401
        from vsg import exceptions, parser, vhdlFile as vhdlFile_pkg

        words = ["work", "P2", "all"]

        def name(tag, lo, hi, last_extra=()):
            k = lo + eng.choose("parts_" + tag, hi - lo + 1)
            parts = []
            for i in range(k):
                pal = words + (list(last_extra) if i == k - 1 else [])
                parts.append(pal[eng.choose("w_%s%d" % (tag, i), len(pal))])
            return ".".join(parts)

        if p["which"] == "use":
            u = name("u", 2, 5, last_extra=('"and"',))
            if p.get("two"):
                u = u + ", " + name("v", 2, 4)
            lines = ["library work;", "use " + u + ";", ""]
        else:
            lines = ["library work;", "context " + name("c", 1, 5) + ";", ""]
        try:
            o = vhdlFile_pkg.vhdlFile(list(lines))
        except exceptions.ClassifyError:
            return True  # rejected with a syntax message: outside C04's quantifier (accepted files)
        out = o.get_lines()[1:]
        return [("C04:emit_equals_input", out == lines), ("C04:every_token_classified", not any(type(t) is parser.item for t in o.lAllObjects))]

    def describe(self, values, p):
        return dict(values)

    def signature(self, values, p, detail):
        if detail.get("kind") == "exception":
            return "exception:%s" % detail.get("type")
        return "vc:" + ",".join(sorted(detail.get("failed", [])))
