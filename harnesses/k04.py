"""C04 - reading is lossless; a clean file is never rewritten."""
from sx import core
from sx.runner import Harness, register

from vsg import tokens


@register
class K04a(Harness):
    name = "K04a"
    prop = "C04"
    title = "tokens.create(s) only regroups characters: ''.join(create(s)) == s"
    functions = ("vsg.tokens",)
    bounds = "every string s of exactly N characters over code points U+0000..U+00FF except LF/CR; N<=2 quick, N<=3 thorough (N=4 with VERIF_DEEP=1)"
    outside = "strings longer than N; code points above U+00FF"
    assumptions = ("a line handed to tokens.create contains no LF/CR (vhdlFile._processFile strips them)",)

    def params(self, tier):
        ns = [0, 1, 2] if tier == "quick" else [0, 1, 2, 3]
        return [{"N": n} for n in ns]

    def run(self, eng, p):
        s = eng.str("s", p["N"])
        toks = tokens.create(s)
        joined = core.sx_join("", toks)
        ok = core.Eq(joined, s)
        # every token is a non-empty string except possibly a single trailing ''
        return ok

    def describe(self, values, p):
        return {"s": "".join(chr(values.get("s[%d]" % i, 32)) for i in range(p["N"]))}

    def signature(self, values, p, detail):
        if detail.get("kind") == "exception":
            return "exception:%s@%s" % (detail.get("type"), __import__("re").sub(r":\d+:", ":", (detail.get("where") or ["?"])[-1]))
        return "roundtrip"


import sys

import vsg.vhdlFile.vhdlFile  # noqa: F401,E402
from vsg import parser  # noqa: E402
from vsg.token import delimited_comment  # noqa: E402

VFM = sys.modules["vsg.vhdlFile.vhdlFile"]


@register
class K04c(Harness):
    name = "K04c"
    prop = "C04"
    title = "line pipeline: tokens.create + blank/whitespace/comment/preprocessor/pragma classification of one line give back the line, inside and outside a delimited comment"
    functions = ("vsg.tokens", "vsg.vhdlFile.vhdlFile", "vsg.vhdlFile.classify.blank", "vsg.vhdlFile.classify.whitespace", "vsg.vhdlFile.classify.comment", "vsg.vhdlFile.classify.preprocessor", "vsg.vhdlFile.classify.pragma", "vsg.parser")
    stubs = ("design_file.tokenize and the post passes (token assignments, hierarchy, todo/aggregate tokens, code tags) are skipped: what runs is vhdlFile._processFile's per-line loop and get_lines",)
    bounds = "a two-line file: concrete first line that does / does not open a delimited comment, second line = every string of N characters (N<=2 quick, <=3 thorough) over U+0000..U+00FF except LF/CR; default pragma patterns (symbolic regex matcher)"
    outside = "longer lines; interaction of three or more lines"
    assumptions = K04a.assumptions

    def params(self, tier):
        return [{"N": n, "open": o} for n in ([0, 1, 2] if tier == "quick" else [0, 1, 2, 3]) for o in (False, True)]

    def run(self, eng, p):
        line = eng.str("s", p["N"])
        first = "/* x" if p["open"] else "-- y"
        saved = (VFM.design_file, VFM.post_token_assignments, VFM.set_token_hierarchy_value, VFM.set_todo_tokens, VFM.set_aggregate_tokens, VFM.set_code_tags)

        class DF:
            @staticmethod
            def tokenize(l):
                return None

        VFM.design_file = DF
        VFM.post_token_assignments = VFM.set_token_hierarchy_value = VFM.set_todo_tokens = VFM.set_aggregate_tokens = VFM.set_code_tags = lambda l: None
        try:
            o = VFM.vhdlFile([first, line])
        finally:
            (VFM.design_file, VFM.post_token_assignments, VFM.set_token_hierarchy_value, VFM.set_todo_tokens, VFM.set_aggregate_tokens, VFM.set_code_tags) = saved
        lines = o.get_lines()
        clauses = [("line_count", len(lines) == 3), ("first_line_kept", core.Eq(lines[1], first))]
        if len(lines) == 3:
            clauses.append(("line_roundtrip", core.Eq(lines[2], line)))
        clauses.append(("tokens_are_items_with_text", all(isinstance(t, parser.item) and isinstance(t.value, (str, core.SymStr)) for t in o.lAllObjects)))
        return clauses

    def describe(self, values, p):
        return {"first_line": "/* x" if p["open"] else "-- y", "second_line": "".join(chr(values.get("s[%d]" % i, 32)) for i in range(p["N"]))}

    def signature(self, values, p, detail):
        if detail.get("kind") == "exception":
            return "exception:%s@%s" % (detail.get("type"), __import__("re").sub(r":\d+:", ":", (detail.get("where") or ["?"])[-1]))
        s = self.describe(values, p)["second_line"]
        shape = "".join("/" if c == "/" else "*" if c == "*" else "w" if c.isspace() else "x" for c in s)
        return "vc:%s:%s:%s" % (",".join(sorted(detail.get("failed", []))), "in_comment" if p["open"] else "plain", shape)
