"""C04 - reading is lossless; a clean file is never rewritten."""
from sx import core
from sx.runner import Harness, register

from vsg import tokens


@register
class K04a(Harness):
    name = "K04a"
    prop = "C04"
    title = "tokens.create(s) only regroups characters: ''.join(create(s)) == s"
    functions = ("vsg.tokens",)
    bounds = "every string s of exactly N characters over code points U+0000..U+00FF except LF/CR; N<=2 quick, N<=3 thorough (N=4 with VERIF_DEEP=1)"
    outside = "strings longer than N; code points above U+00FF"
    assumptions = ("a line handed to tokens.create contains no LF/CR (vhdlFile._processFile strips them)",)

    def params(self, tier):
        ns = [0, 1, 2] if tier == "quick" else [0, 1, 2, 3]
        return [{"N": n} for n in ns]

    def run(self, eng, p):
        s = eng.str("s", p["N"])
        toks = tokens.create(s)
        joined = core.sx_join("", toks)
        ok = core.Eq(joined, s)
        # every token is a non-empty string except possibly a single trailing ''
        return ok

    def describe(self, values, p):
        return {"s": "".join(chr(values.get("s[%d]" % i, 32)) for i in range(p["N"]))}

    def signature(self, values, p, detail):
        if detail.get("kind") == "exception":
            return "exception:%s@%s" % (detail.get("type"), (detail.get("where") or ["?"])[-1])
        return "roundtrip"
