"""C13 (phase gating, -ap, -fp, skip_phase), C03 gate, C06 kernel: real rule_list.check_rules / rule_list.fix on stub rules."""
from sx import core
from sx.core import And, Or, Not, Implies, Iff, Eq, f_of
from sx.runner import Harness, register

from .stubs import StubRule, StubFile, make_rule_list


def _sig(values, p, detail):
    if detail.get("kind") == "exception":
        return "exception:%s@%s" % (detail.get("type"), __import__("re").sub(r":\d+:", ":", (detail.get("where") or ["?"])[-1]))
    import re
    failed = sorted(set(re.sub(r"\d+$", "", f) for f in detail.get("failed", [])))
    return "vc:" + ",".join(failed) if failed else "vc"


def _failed(eng, named):
    """names of the conjuncts that are not valid on this path (only evaluated lazily for the report)"""
    return {"clauses": [n for n, _ in named]}


def _skip_list(eng, nskip):
    sk = []
    for j in range(nskip):
        sk.append(eng.int("skip%d" % j, 0, 7))  # 0 = no phase skipped
    return sk


def _in_skip(phase_t, sk):
    return Or([f_of(s == phase_t) for s in sk]) if sk else False


@register
class K13a(Harness):
    name = "K13a"
    prop = "C13"
    title = "check_rules analyses exactly the enabled rules of non-skipped phases up to the first failing phase (all with -ap)"
    functions = ("vsg.rule_list", "vsg.rule", "vsg.severity", "vsg.violation")
    stubs = ("rule metadata and violation counts are symbolic inputs of StubRule (subclass of the real vsg.rule.Rule)", "file object replaced by a recorder")
    bounds = "K rules (2 quick / 3 thorough with reduced ranges) with phase 1..7, subphase 1..2, disable, severity type, 0..1 violations all symbolic; --all_phases symbolic; one symbolic skipped phase (0..7)"
    outside = "more rules than K; more than one skipped phase (K13a2 covers two)"

    def params(self, tier):
        if tier == "quick":
            return [{"K": 1, "nskip": 1, "pmax": 7}, {"K": 2, "nskip": 1, "pmax": 7}]
        return [{"K": 1, "nskip": 2, "pmax": 7}, {"K": 2, "nskip": 2, "pmax": 7}, {"K": 3, "nskip": 1, "pmax": 2, "lite": True}]

    def run(self, eng, p):
        K = p["K"]
        oFile = StubFile()
        log = []
        rules = [StubRule(eng, i, phases=(1, p["pmax"]), subphases=(1, 1) if p.get("lite") else (1, 2), max_viol=1, lines=(1, 1), sym_fixable=False, log=log) for i in range(K)]
        ap = eng.bool("ap")
        sk = _skip_list(eng, p["nskip"])
        rl = make_rule_list(rules, oFile)
        rl.check_rules(bAllPhases=ap, lSkipPhase=sk)
        fap = f_of(ap)
        ph = [core.t_of(r.phase) for r in rules]
        skipped = [_in_skip(r.phase, sk) for r in rules]
        fails = [And(Not(r.f_disable()), Not(s), r.f_iserr, r.f_has()) for r, s in zip(rules, skipped)]
        clauses = []
        for i, r in enumerate(rules):
            earlier = Or([And(fails[j], f_of(rules[j].phase < r.phase)) for j in range(K)])
            expect = And(Not(r.f_disable()), Not(skipped[i]), Or(fap, Not(earlier)))
            clauses.append(("analysed%d" % i, Iff(expect, r.analyzed == 1)))
            clauses.append(("at_most_once%d" % i, r.analyzed <= 1))
            # what the rule holds afterwards is what it was told to report, or nothing
            nv = len(r.violations)
            clauses.append(("count%d" % i, And(Implies(expect, Eq(nv, r.nv)), Implies(Not(expect), nv == 0))))
        clauses.append(("flag", Iff(Or(fails), bool(rl.violations))))
        nran = sum(r.analyzed for r in rules)
        clauses.append(("num_rules_ran", rl.iNumberRulesRan == nran))
        # order of analysis: non-decreasing (phase, subphase)
        order = [i for (what, i) in log if what == "analyze"]
        for a, b in zip(order, order[1:]):
            ra, rb = rules[a], rules[b]
            clauses.append(("order", Or(f_of(ra.phase < rb.phase), And(f_of(ra.phase == rb.phase), f_of(ra.subphase <= rb.subphase)))))
        # stop phase: first failing phase when gated, otherwise the last non-skipped phase
        anyfail = Or(fails)
        lp = rl.lastPhaseRan
        for q in range(1, 8):
            is_first_fail = And([fails_j_implies(fails[j], ph[j], q) for j in range(K)] + [Or([And(fails[j], f_of(rules[j].phase == q)) for j in range(K)])])
            clauses.append(("stop_phase_gated", Implies(And(Not(fap), is_first_fail), Eq(lp, q))))
        last_non_skipped = 0
        for q in range(1, 8):
            last_non_skipped = core.If(_in_skip(q, sk), last_non_skipped, q)
        clauses.append(("stop_phase_all", Implies(Or(fap, Not(anyfail)), Eq(lp, last_non_skipped))))
        return clauses

    def describe(self, values, p):
        return values

    signature = staticmethod(_sig)


def fails_j_implies(fail, phase_t, q):
    """no failing rule in a phase before q"""
    return Implies(fail, f_of(core.SymInt(phase_t) >= q) if not isinstance(phase_t, int) else phase_t >= q)


@register
class K03(Harness):
    name = "K03"
    prop = "C03"
    title = "rule_list.fix runs _fix_violation exactly for enabled, fixable, error-severity rules of phases 1..N that are not skipped; nothing else touches the file"
    functions = ("vsg.rule_list", "vsg.rule", "vsg.severity", "vsg.violation")
    stubs = K13a.stubs
    bounds = "K rules (2 quick / 3 thorough with phases 1..3) x symbolic phase 1..7, subphase 1..2, disable, fixable, severity type, 0..2 violations; --fix_phase N symbolic 1..7 (int and numeric string); one symbolic skipped phase"
    outside = "more rules; real rule bodies (KB/L families)"
    exception_props = ("C03", "C13", "C19")

    def params(self, tier):
        if tier == "quick":
            return [{"K": 1, "pmax": 7, "fp_str": False}, {"K": 1, "pmax": 7, "fp_str": True}, {"K": 2, "pmax": 3, "fp_str": False}]
        return [{"K": 1, "pmax": 7, "fp_str": False}, {"K": 1, "pmax": 7, "fp_str": True}, {"K": 2, "pmax": 7, "fp_str": False}, {"K": 3, "pmax": 2, "fp_str": False, "lite": True}]

    def run(self, eng, p):
        K = p["K"]
        oFile = StubFile()
        log = []
        rules = [StubRule(eng, i, phases=(1, p["pmax"]), subphases=(1, 1) if p.get("lite") else (1, 2), max_viol=1 if p.get("lite") else 2, lines=(1, 1), log=log) for i in range(K)]
        N = eng.int("fix_phase", 1, 7 if not p.get("lite") else 3)
        sk = _skip_list(eng, 1)
        rl = make_rule_list(rules, oFile)
        fp = N
        if p["fp_str"]:
            from sx.instrument import sx_str

            fp = sx_str(N)
        rl.fix(iFixPhase=fp, lSkipPhase=sk, dFixOnly=None)
        clauses = []
        any_fixed = False
        for i, r in enumerate(rules):
            inrange = And(f_of(r.phase <= N), Not(_in_skip(r.phase, sk)), Not(r.f_disable()))
            gate = And(inrange, r.f_fixable(), r.f_iserr)
            nfix = len(r.fixed)
            clauses.append(("fixcount%d" % i, And(Implies(gate, Eq(nfix, r.nv)), Implies(Not(gate), nfix == 0))))
            # a rule that may not fix is analysed at most (report-only); it never reaches the file
            clauses.append(("had%d" % i, Iff(bool(r.had_violations), And(gate, r.f_has()))))
            any_fixed = Or(any_fixed, And(gate, r.f_has()))
            # after a fix pass the rule holds no stale violations
            clauses.append(("cleared%d" % i, Implies(gate, len(r.violations) == 0)))
            clauses.append(("once%d" % i, r.analyzed <= 1))
            clauses.append(("analysed_iff_in_range%d" % i, Iff(r.analyzed == 1, And(inrange, Or(r.f_fixable(), Not(r.f_iserr))))))
        clauses.append(("had_violations", Iff(bool(rl.had_violations), any_fixed)))
        # file.update is only ever called from a gated rule, once per fix pass
        nupd = sum(1 for e in oFile.log if e[0] == "update")
        gated = core.Sum([core.If(And(f_of(r.phase <= N), Not(_in_skip(r.phase, sk)), Not(r.f_disable()), r.f_fixable(), r.f_iserr), 1, 0) for r in rules])
        clauses.append(("updates", Eq(nupd, gated)))
        return clauses

    signature = staticmethod(_sig)


@register
class K13b(Harness):
    name = "K13b"
    prop = "C13"
    props = ("C13", "C08", "C18")
    title = "rule_list.fix call order: phases/sub-phases ascending, prerequisites last inside a sub-phase, indent refresh before phase 4, model normalisation exactly once after phase 1"
    functions = ("vsg.rule_list", "vsg.rule")
    stubs = K13a.stubs
    bounds = "2 rules (3 thorough, phases 1..4) with symbolic phase/subphase/prerequisite flag; symbolic --fix_phase; one symbolic skipped phase"
    outside = "more rules"

    def params(self, tier):
        if tier == "quick":
            return [{"K": 2, "pmax": 3}]
        return [{"K": 2, "pmax": 7}, {"K": 3, "pmax": 2}]

    def run(self, eng, p):
        K = p["K"]
        oFile = StubFile()
        log = []
        rules = [StubRule(eng, i, phases=(1, p["pmax"]), subphases=(0, 2), max_viol=1, lines=(1, 1), sev="error", sym_fixable=False, sym_disable=False, prereq=True, log=log) for i in range(K)]
        N = eng.int("fix_phase", 1, 7)
        sk = _skip_list(eng, 1)
        # interleave the file recorder's log with the rule log
        oFile.log = log
        rl = make_rule_list(rules, oFile)
        rl.fix(iFixPhase=N, lSkipPhase=sk, dFixOnly=None)
        clauses = []
        order = [e[1] for e in log if e[0] == "analyze"]
        for a, b in zip(order, order[1:]):
            ra, rb = rules[a], rules[b]
            same = And(f_of(ra.phase == rb.phase), f_of(ra.subphase == rb.subphase))
            clauses.append(("C13:order", Or(f_of(ra.phase < rb.phase), And(f_of(ra.phase == rb.phase), f_of(ra.subphase < rb.subphase)), same)))
            # within one sub-phase: a rule with prerequisites never runs before one without
            clauses.append(("C13:prereq", Implies(same, Not(And(bool(ra.prerequisites), not bool(rb.prerequisites))))))
        # model normalisation after phase 1: exactly once iff phase 1 is executed (N >= 1 always) and not skipped
        n_fb = sum(1 for e in log if e[0] == "fix_blank_lines")
        n_tw = sum(1 for e in log if e[0] == "fix_trailing_whitespace")
        n_tm = sum(1 for e in log if e[0] == "update_token_map")
        skip1 = _in_skip(1, sk)
        # (charged to C13 as ordering, to C08 because the written text is re-read with blank_line tokens, to C18 because the index must be rebuilt)
        norm = And(Eq(n_fb, core.If(skip1, 0, 1)), Eq(n_tw, n_fb), Eq(n_tm, n_fb))
        for pr in ("C13", "C08", "C18"):
            clauses.append((pr + ":normalise_once", norm))
        # ... and it happens after every phase-1 rule and before any rule of a later phase
        if n_fb:
            idx = [k for k, e in enumerate(log) if e[0] == "fix_blank_lines"][0]
            for k, e in enumerate(log):
                if e[0] == "analyze":
                    r = rules[e[1]]
                    for pr in ("C13", "C08", "C18"):
                        clauses.append((pr + ":normalise_position", Iff(f_of(r.phase == 1), k < idx)))
        # indentation levels are refreshed before any phase-4 rule (and when phase 1 is skipped)
        n_ti = [k for k, e in enumerate(log) if e[0] == "set_token_indent"]
        for k, e in enumerate(log):
            if e[0] == "analyze":
                r = rules[e[1]]
                # (documented order: indentation levels are recomputed right before the indentation phase)
                clauses.append(("C13:indent_before_phase4", Implies(f_of(r.phase == 4), any(j < k for j in n_ti))))
        return clauses

    signature = staticmethod(_sig)


@register
class K06(Harness):
    name = "K06"
    prop = "C06"
    title = "check_rules is repeatable and disabling a set of rules removes exactly their violations (all-phases report)"
    functions = ("vsg.rule_list", "vsg.rule", "vsg.violation")
    stubs = K13a.stubs
    bounds = "2 rules (3 thorough, phases 1..3): symbolic phase, subphase, disable, severity type, 0..2 violations on symbolic lines 1..9"
    outside = "state shared between real rule bodies (L06)"

    def params(self, tier):
        return [{"K": 2, "pmax": 7}] if tier == "quick" else [{"K": 2, "pmax": 7}, {"K": 3, "pmax": 1}]

    def run(self, eng, p):
        K = p["K"]
        oFile = StubFile()
        oFile.lAllObjects = ["t0", "t1", "t2"]
        rules = [StubRule(eng, i, phases=(1, p["pmax"]), subphases=(1, 2), max_viol=2, lines=(1, 9), sym_fixable=False) for i in range(K)]
        rl = make_rule_list(rules, oFile)
        rl.check_rules(bAllPhases=True, lSkipPhase=[])
        first = [[v.get_line_number() for v in r.violations] for r in rules]
        flag1 = rl.violations
        rl.clear_violations()
        rl.check_rules(bAllPhases=True, lSkipPhase=[])
        second = [[v.get_line_number() for v in r.violations] for r in rules]
        clauses = [("repeat", Eq(first, second)), ("flag_repeat", flag1 == rl.violations), ("tokens_untouched", oFile.lAllObjects == ["t0", "t1", "t2"]), ("no_update", not oFile.log)]
        for i, r in enumerate(rules):
            want = [r.vlines[j] for j in range(len(first[i]))]
            # the rule's report depends only on its own inputs: present iff enabled, with its own lines
            clauses.append(("own%d" % i, And(Eq(first[i], want), Implies(r.f_disable(), len(first[i]) == 0), Implies(Not(r.f_disable()), Eq(len(first[i]), r.nv)))))
        return clauses

    signature = staticmethod(_sig)
