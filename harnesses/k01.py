"""C01/C03 kernel - case rules are pure case maps: real rules/token_case.py (_analyze, _fix_violation) and rules/case_utils.py
(check_for_case_violation and everything it dispatches to) on one token with a symbolic value."""
from sx import core
from sx.core import And, Or, Not, Implies, Iff, Eq, f_of
from sx.runner import Harness, register

from vsg import token
from vsg.rules import token_case
from vsg.vhdlFile.extract import tokens as xtokens

from .k13 import _sig

CASES = ["lower", "upper", "upper_or_lower", "camelCase", "relaxedCamelCase", "PascalCase", "RelaxedPascalCase", "Pascal_Snake_Case", "regex"]


@register
class K01b(Harness):
    name = "K01b"
    prop = "C01"
    props = ("C01", "C03")
    title = "a case rule's fix is a pure case map of the token text: same length, same text when lower-cased"
    functions = ("vsg.rules.token_case", "vsg.rules.case_utils", "vsg.rules.utils", "vsg.rule", "vsg.violation")
    stubs = ("one token in a one-token region of interest; the rule is a real token_case instance built for signal identifiers",)
    bounds = "token text = every string of N characters (N<=2 quick, <=3 thorough) over U+0000..U+00FF except LF/CR; case option in all nine documented values; optionally one prefix or suffix exception of 1 symbolic character over {a,A,_}"
    outside = "longer identifiers; several exceptions at once; case_exceptions lists"
    exception_props = ("C01", "C19")

    def params(self, tier):
        out = []
        for c in CASES:
            for n in ([1, 2] if tier == "quick" else [1, 2, 3]):
                out.append({"case": c, "N": n, "exc": "none"})
        for c in ("lower", "upper", "camelCase"):
            for e in ("prefix", "suffix", "both"):
                out.append({"case": c, "N": 2 if tier == "quick" else 3, "exc": e})
        return out

    def run(self, eng, p):
        s = eng.str("s", p["N"])
        tok = token.signal_declaration.identifier(s)
        oToi = xtokens.New(0, 1, [tok])
        r = token_case([token.signal_declaration.identifier])
        r.case = p["case"]
        r.name = "signal"
        if p["exc"] == "prefix":
            r.prefix_exceptions = [eng.str("e", 1, alphabet="aA_")]
        elif p["exc"] == "suffix":
            r.suffix_exceptions = [eng.str("e", 1, alphabet="aA_")]
        elif p["exc"] == "both":
            r.prefix_exceptions = [eng.str("e", 1, alphabet="aA_'")]
            r.suffix_exceptions = [eng.str("f", 1, alphabet="aA_'")]
        r.case_exceptions_lower = []
        r._analyze([oToi])
        for v in r.violations[::-1]:
            r._fix_violation(v)
        new = tok.get_value()
        clauses = [("same_length", len(new) == len(s)), ("same_text_modulo_case", Eq(core.lift(new).lower() if isinstance(new, (str, core.SymStr)) else new, core.lift(s).lower()))]
        # a token that starts like a string or character literal is never touched by a case rule (bit string rules aside)
        first = core._cps(s)[0]
        quoted = Or(core._eqc(first, 34), core._eqc(first, 39))
        clauses.append(("literal_untouched", Implies(quoted, Eq(new, s))))
        return clauses

    def describe(self, values, p):
        d = {"text": "".join(chr(values.get("s[%d]" % i, 32)) for i in range(p["N"])), "case": p["case"]}
        if p["exc"] != "none":
            d[p["exc"] + "_exception"] = chr(values.get("e[0]", 97))
        return d

    def signature(self, values, p, detail):
        if detail.get("kind") == "exception":
            return _sig(values, p, detail)
        t = self.describe(values, p)["text"]
        special = sorted(set(c for c in t if len(c.upper()) != 1 or len(c.lower()) != 1 or ord(c.upper()) > 255))
        return "vc:%s:%s:%s" % (",".join(sorted(detail.get("failed", []))), p["case"], "".join("U+%04X" % ord(c) for c in special) or "plain")


from vsg.rules import consistent_case_utils as ccu
from vsg.token_map import process_tokens


class _File:
    def __init__(self, toks):
        self.lAllObjects = toks
        self.oTokenMap = process_tokens(toks)

    def get_token_map(self):
        return self.oTokenMap


@register
class K01c(Harness):
    name = "K01c"
    prop = "C01"
    props = ("C01", "C03")
    title = "consistent-case rules: a use is rewritten to the declared spelling only if it is the same name up to case (same length, same lower-cased text)"
    functions = ("vsg.rules.consistent_case_utils", "vsg.vhdlFile.extract.tokens", "vsg.token_map")
    stubs = ("a two-token file: the declared identifier and one use; the scope dictionaries that the rules build from the classifier output are given directly",)
    bounds = "declared name and used name = every pair of strings of 1..2 characters each over U+0000..U+00FF except LF/CR"
    outside = "longer names; the scope computation (get_token_of_interest_dicts)"
    exception_props = ("C01", "C19")

    def params(self, tier):
        return [{"n1": a, "n2": b} for a in (1, 2) for b in (1, 2)]

    def run(self, eng, p):
        d = eng.str("decl", p["n1"])
        u = eng.str("use", p["n2"])
        toks = [token.signal_declaration.identifier(d), parser_ws(), token.signal_declaration.identifier(u), parser_cr()]
        oFile = _File(toks)
        lToi = ccu.create_tois([{"names": [2], "identifiers": [0]}], oFile)
        clauses = []
        for oToi in lToi:
            exp = oToi.get_meta_data("expected")
            clauses.append(("rewrite_is_case_only", And(len(exp) == len(u), Eq(core.lift(exp).lower(), core.lift(u).lower()))))
        if not lToi:
            clauses.append(("no_rewrite", True))
        return clauses

    def describe(self, values, p):
        return {"declared": "".join(chr(values.get("decl[%d]" % i, 32)) for i in range(p["n1"])), "used": "".join(chr(values.get("use[%d]" % i, 32)) for i in range(p["n2"]))}

    signature = staticmethod(_sig)


def parser_ws():
    from vsg import parser

    return parser.whitespace(" ")


def parser_cr():
    from vsg import parser

    return parser.carriage_return()
