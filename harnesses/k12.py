"""C12 - configuration precedence: real rule.Rule.configure (+ configure_global/group/rule_attributes), rule_list.configure,
_validate_configuration_rule_exists, apply_rules.configure_rules (+ per file_list / file_rules), config.process_config_file,
severity.create_list, deprecated_rule.Rule."""
from sx import core
from sx.core import And, Or, Not, Implies, Iff, Eq, f_of
from sx.runner import Harness, register

import vsg.apply_rules as AR
from vsg import config, deprecated_rule, exceptions, rule, severity

from .k13 import _sig
from .stubs import make_rule_list, StubFile

FNAME = "src/design.vhd"
LEVELS = ["global", "group", "rule", "file_list", "file_rules"]
SEV_NAMES = ["Error", "Warning", "Custom", "Note"]
SEV_DEF = {"Custom": {"type": "error"}, "Note": {"type": "warning"}}


class _Logged:
    """what a concrete rule would supply: nothing to look at, but every analysis is recorded"""

    calllog = None

    def _get_tokens_of_interest(self, oFile):
        if self.calllog is not None:
            self.calllog.append(self.get_unique_id())
        return []

    def _analyze(self, lToi):
        pass


class ConfRule(_Logged, rule.Rule):
    def __init__(self, uid_name, uid_num, groups):
        super().__init__()
        self.name = uid_name
        self.identifier = uid_num
        self.unique_id = uid_name + "_" + uid_num
        self.groups = list(groups)
        self.phase = 2
        self.case = "lower"
        self.configuration.append("case")


class rule_001(_Logged, rule.Rule):
    """a localized rule written the way docs/localizing.rst shows: the name is assigned after the base constructor ran,
    so unique_id (computed in the constructor) and get_unique_id() differ"""

    def __init__(self, groups):
        super().__init__()
        self.name = "localized"
        self.phase = 2
        self.groups = list(groups)
        self.case = "lower"
        self.configuration.append("case")


class OldRule(deprecated_rule.Rule):
    def __init__(self):
        super().__init__()
        self.name = "old"
        self.identifier = "003"
        self.unique_id = "old_003"
        self.message.append("Use cfg_001 instead.")


def _value(eng, attr, level):
    nm = "%s@%s" % (attr, level)
    if attr in ("disable", "fixable"):
        return eng.bool(nm)
    if attr in ("indent_size", "phase", "zzz_undeclared"):
        return eng.int(nm, 1, 7)
    if attr == "severity":
        return SEV_NAMES[eng.choose(nm, len(SEV_NAMES))]
    if attr == "case":
        return ["lower", "upper", "camelCase"][eng.choose(nm, 3)]
    raise ValueError(attr)


ATTRS = ["disable", "fixable", "indent_size", "phase", "severity", "case", "zzz_undeclared"]


@register
class K12a(Harness):
    name = "K12a"
    prop = "C12"
    props = ("C12", "C03", "C13")
    title = "the effective value of a rule attribute is the value at the most specific configuration level that mentions it (file_rules > file_list > rule > group > global > default)"
    functions = ("vsg.rule", "vsg.rule_list", "vsg.apply_rules", "vsg.severity", "vsg.config", "vsg.utils")
    stubs = ("rule_list constructor bypassed (two hand-made rules instead of the ~1000 shipped ones)", "configuration dictionaries are built directly (no YAML/JSON text)")
    bounds = "one attribute at a time out of {disable, fixable, indent_size, phase, severity, case, an undeclared name}; presence at each of the 5 levels symbolic (32 patterns); values symbolic (bools, ints 1..7, 4 severity names incl. two user-defined); group membership symbolic; the file is / is not the one named in the per-file sections"
    outside = "YAML/JSON parsing, glob and $VAR expansion; several attributes interacting"
    exception_props = ("C12", "C19")

    def params(self, tier):
        return ([{"attr": a} for a in ATTRS] + [{"attr": a, "kind": "localized"} for a in ("disable", "severity", "indent_size")]
                + [{"attr": "disable", "fname": f} for f in ("./design.vhd", "./rtl/design.vhd", "rtl//design.vhd", "../x/design.vhd", "design.vhd")])

    def run(self, eng, p):
        attr = p["attr"]
        FNAME = p.get("fname", "src/design.vhd")
        member = eng.bool("in_group")
        same_file = eng.bool("file_matches")
        if p.get("kind") == "localized":
            r = rule_001(["g"] if member else ["other"])
        else:
            r = ConfRule("cfg", "001", ["g"] if member else ["other"])
        uid = r.get_unique_id()
        r2 = ConfRule("oth", "002", ["g"])
        default = {"disable": False, "fixable": True, "indent_size": 2, "phase": 2, "severity": "Error", "case": "lower", "zzz_undeclared": None}[attr]
        present = {}
        vals = {}
        dconf = {"rule": {}, "severity": SEV_DEF}
        for lv in LEVELS:
            present[lv] = eng.bool("has@" + lv)
            if present[lv]:
                vals[lv] = _value(eng, attr, lv)
        if present["global"]:
            dconf["rule"]["global"] = {attr: vals["global"]}
        if present["group"]:
            dconf["rule"]["group"] = {"g": {attr: vals["group"]}}
        if present["rule"]:
            dconf["rule"][uid] = {attr: vals["rule"]}
        target = FNAME if same_file else "src/another.vhd"
        if present["file_list"]:
            dconf["file_list"] = ["src/plain.vhd", {target: {"rule": {uid: {attr: vals["file_list"]}}}}]
        if present["file_rules"]:
            dconf["file_rules"] = [{target: {"rule": {uid: {attr: vals["file_rules"]}}}}]
        oConfig = config.config()
        oConfig.dConfig = dconf
        oConfig.severity_list = severity.create_list(dconf)
        oFile = StubFile()
        oFile.filename = FNAME
        rl = make_rule_list([r, r2], oFile, real_init=attr in ("phase", "disable"))
        rl.oSeverityList = oConfig.severity_list
        AR.configure_rules(oConfig, rl, dconf, 0, FNAME)
        # expected: highest-priority level that mentions the attribute
        order = []
        if present["file_rules"] and same_file:
            order.append("file_rules")
        if present["file_list"] and same_file:
            order.append("file_list")
        if present["rule"]:
            order.append("rule")
        if present["group"] and member:
            order.append("group")
        if present["global"]:
            order.append("global")
        clauses = []
        if attr == "zzz_undeclared":
            clauses.append(("undeclared_attribute_not_created", not hasattr(r, "zzz_undeclared")))
            return clauses
        want = vals[order[0]] if order else default
        if attr == "severity":
            clauses.append(("severity_name", r.severity is not None and Eq(r.severity.name, want)))
            if r.severity is not None:
                wtype = "warning" if want in ("Warning", "Note") else "error"
                clauses.append(("severity_type", r.severity.type == wtype))
        else:
            clauses.append(("effective_value", Eq(getattr(r, attr), want)))
        # the other rule (member of group g, never named) only sees global and group
        o2 = []
        if present["group"]:
            o2.append("group")
        if present["global"]:
            o2.append("global")
        want2 = vals[o2[0]] if o2 else default
        if attr == "severity":
            clauses.append(("other_rule_severity", r2.severity is not None and Eq(r2.severity.name, want2)))
        else:
            clauses.append(("other_rule_value", Eq(getattr(r2, attr), want2)))
        if attr in ("phase", "disable"):
            # ... and the effective value is the one the engine acts on: the real check_rules / fix schedule both rules by it
            ph = {r: want if attr == "phase" else 2, r2: want2 if attr == "phase" else 2}
            off = {r: want if attr == "disable" else False, r2: want2 if attr == "disable" else False}
            expect = [x.get_unique_id() for k in range(1, 8) for x in (r, r2) if ph[x] == k and not off[x]]
            log = []
            r.calllog = r2.calllog = log
            rl.check_rules(bAllPhases=True)
            clauses.append(("check_schedules_by_effective_value", log == expect))
            del log[:]
            rl.fix(7)
            clauses.append(("fix_schedules_by_effective_value", log == expect))
        return clauses

    signature = staticmethod(_sig)


@register
class K12b(Harness):
    name = "K12b"
    prop = "C12"
    title = "later configuration files override earlier ones per rule key; keys absent from the later file keep the earlier value"
    functions = ("vsg.config",)
    stubs = ("YAML loader bypassed: process_config_file is handed the already-loaded dictionaries",)
    bounds = "two files; for rule sections {global, a_001, b_002} and top-level key 'linesep': presence in each file symbolic, values symbolic ints"
    outside = "file_list merging (needs the real file system for glob)"

    def params(self, tier):
        return [{}]

    def run(self, eng, p):
        keys = ["global", "a_001", "b_002"]
        f1 = {"rule": {}}
        f2 = {"rule": {}}
        v1, v2, h1, h2 = {}, {}, {}, {}
        for k in keys:
            h1[k] = eng.bool("f1.has." + k)
            h2[k] = eng.bool("f2.has." + k)
            v1[k] = eng.int("f1." + k, 0, 9)
            v2[k] = eng.int("f2." + k, 0, 9)
            if h1[k]:
                f1["rule"][k] = {"indent_size": v1[k]}
            if h2[k]:
                f2["rule"][k] = {"indent_size": v2[k]}
        if eng.bool("f1.norule"):
            del f1["rule"]
        if eng.bool("f2.norule"):
            del f2["rule"]
        t1, t2 = eng.bool("f1.linesep"), eng.bool("f2.linesep")
        if t1:
            f1["linesep"] = "A"
        if t2:
            f2["linesep"] = "B"
        d = config.process_config_file({}, f1, "one.yaml")
        d = config.process_config_file(d, f2, "two.yaml")
        clauses = []
        for k in keys:
            in1 = "rule" in f1 and k in f1["rule"]
            in2 = "rule" in f2 and k in f2["rule"]
            got = d.get("rule", {}).get(k)
            if in2:
                clauses.append(("later_wins_" + k, got is not None and Eq(got["indent_size"], v2[k])))
            elif in1:
                clauses.append(("earlier_kept_" + k, got is not None and Eq(got["indent_size"], v1[k])))
            else:
                clauses.append(("absent_" + k, got is None))
        clauses.append(("toplevel", d.get("linesep") == ("B" if t2 else ("A" if t1 else None))))
        return clauses

    signature = staticmethod(_sig)


@register
class K12d(Harness):
    name = "K12d"
    prop = "C12"
    title = "naming a rule that does not exist, or a deprecated rule, is a configuration error (top level and inside per-file sections)"
    functions = ("vsg.rule_list", "vsg.rule", "vsg.deprecated_rule", "vsg.apply_rules")
    stubs = K12a.stubs
    bounds = "rule name = every string of <=3 characters over {a,b,_,1,2,g,l,o} plus the fixed names a_1, global, group, old_003; rule set {a_1, b_2, deprecated old_003}; at top level, in file_list and in file_rules"
    outside = "longer names"
    allowed_exceptions = ()
    exception_props = ("C12", "C19")

    def params(self, tier):
        out = []
        for where in ("top", "file_list", "file_rules"):
            for n in ([1, 2, 3, 4, 5, 6] if tier == "quick" else [1, 2, 3, 4, 5, 6, 7]):
                out.append({"where": where, "N": n})
            for fixed in ("a_1", "global", "group", "old_003", "b_2"):
                out.append({"where": where, "fixed": fixed})
            if where != "top":
                out.append({"where": where, "N": 3, "valid_top": True})
                out.append({"where": where, "fixed": "old_003", "valid_top": True})
        return out

    def run(self, eng, p):
        if "fixed" in p:
            name = p["fixed"]
        else:
            name = eng.str("name", p["N"], alphabet="ab_12glo")
        r1 = ConfRule("a", "1", ["g"])
        r2 = ConfRule("b", "2", ["g"])
        old = OldRule()
        section = core.SymKeyDict([(name, {"disable": True})]) if name != "group" else {name: {"g": {"disable": True}}}
        dconf = {"rule": {"b_2": {"indent_size": 3}, "global": {"fixable": True}} if p.get("valid_top") else {}}
        if p["where"] == "top":
            dconf["rule"] = section
        elif p["where"] == "file_list":
            dconf["file_list"] = [{FNAME: {"rule": section}}]
        else:
            dconf["file_rules"] = [{FNAME: {"rule": section}}]
        oConfig = config.config()
        oConfig.dConfig = dconf
        oConfig.severity_list = severity.create_list(dconf)
        oFile = StubFile()
        oFile.filename = FNAME
        rl = make_rule_list([r1, r2, old], oFile)
        raised = False
        try:
            AR.configure_rules(oConfig, rl, dconf, 0, FNAME)
        except exceptions.ConfigurationError:
            raised = True
        known = Or(Eq(name, "a_1"), Eq(name, "b_2"), Eq(name, "global"), Eq(name, "group"))
        # (old_003 exists but is deprecated -> error as well)
        return [("config_error_iff_unknown_or_deprecated", Iff(raised, Not(known))), ("configured_when_known", Implies(Eq(name, "a_1"), r1.disable is True))]

    def describe(self, values, p):
        if "fixed" in p:
            return {"name": p["fixed"], "where": p["where"]}
        return {"name": "".join(chr(values.get("name[%d]" % i, 97)) for i in range(p["N"])), "where": p["where"]}

    signature = staticmethod(_sig)


@register
class K12e(Harness):
    name = "K12e"
    prop = "C12"
    props = ("C12", "C15")
    title = "config.New is a function of its arguments: building a configuration with a -c file leaves nothing behind for the next build in the same process"
    functions = ("vsg.config", "vsg.severity")
    stubs = ("open_configuration_file returns a dictionary with symbolic values for the two fake -c file names; the predefined style files are read for real",)
    bounds = "styles {none, jcl, indent_only}; a -c file setting disable (symbolic bool) and indent_size (symbolic 0..9) for one rule and a user-defined severity; three builds: without, with, without"
    outside = "other keys of the configuration file"
    exception_props = ("C12", "C19")

    def params(self, tier):
        return [{"style": s} for s in (None, "jcl", "indent_only")]

    def run(self, eng, p):
        import copy

        from .lfam import CLA

        real_open = config.open_configuration_file
        fileA = {"rule": {"signal_004": {"disable": eng.bool("disable"), "indent_size": eng.int("indent_size", 0, 9)}, "global": {"fixable": eng.bool("fixable")}},
                 "severity": {"Custom": {"type": "error"}}, "skip_phase": [7]}

        def fake_open(name, junit=None):
            if name == "A.yaml":
                return copy.deepcopy(fileA) if False else fileA
            return real_open(name, junit)

        config.open_configuration_file = fake_open
        try:
            c0 = config.New(CLA(style=p["style"]))
            base = copy.deepcopy({k: v for k, v in c0.dConfig.items() if k != "pragma"})
            sev0 = [s.name for s in c0.severity_list.get_severities()]
            c1 = config.New(CLA(style=p["style"], configuration=["A.yaml"]))
            c2 = config.New(CLA(style=p["style"]))
        finally:
            config.open_configuration_file = real_open
        got = {k: v for k, v in c2.dConfig.items() if k != "pragma"}
        clauses = [("later_build_unaffected", core.Eq(got, base)), ("severities_unaffected", [s.name for s in c2.severity_list.get_severities()] == sev0),
                   ("file_applied", core.Eq(c1.dConfig["rule"]["signal_004"]["disable"], fileA["rule"]["signal_004"]["disable"]))]
        return clauses

    signature = staticmethod(_sig)


@register
class K13c(Harness):
    name = "K13c"
    prop = "C13"
    title = "the skip_phase list of the configuration reaches the run unchanged, whatever --fix_phase is"
    functions = ("vsg.config",)
    stubs = ("config.update_command_line_arguments called directly with a command-line object and a configuration dictionary",)
    bounds = "skip_phase = list of 0..2 symbolic phases 1..7 (or absent); --fix_phase symbolic 1..7 (int or numeric string)"
    outside = "skip_phase given as a scalar"
    exception_props = ("C13", "C19")

    def params(self, tier):
        return [{"n": 0}, {"n": 1}, {"n": 2}, {"n": 1, "fp_str": True}]

    def run(self, eng, p):
        from .lfam import CLA
        from sx.instrument import sx_str

        cla = CLA()
        cla.fix = eng.bool("fix")
        fp = eng.int("fix_phase", 1, 7)
        cla.fix_phase = sx_str(fp) if p.get("fp_str") else fp
        skips = [eng.int("skip%d" % i, 1, 7) for i in range(p["n"])]
        present = eng.bool("skip_key_present") if p["n"] == 0 else True
        conf = {"rule": {}}
        if present:
            conf["skip_phase"] = list(skips)
        config.update_command_line_arguments(cla, conf)
        got = list(cla.skip_phase)
        clauses = []
        for q in range(1, 8):
            want = core.Or([core.f_of(s == q) for s in skips]) if skips else False
            have = core.Or([core.f_of(g == q) for g in got]) if got else False
            clauses.append(("phase%d_skipped_iff_configured" % q, core.Iff(want, have)))
        return clauses

    signature = staticmethod(_sig)
