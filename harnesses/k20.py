"""C20 - --fix_only fixes what it lists and nothing else: real rule._filter_out_fix_only_violations / rule.fix / rule_list.fix."""
import itertools

from sx import core
from sx.core import And, Or, Not, Implies, Iff, Eq, f_of
from sx.runner import Harness, register

from .k13 import _sig
from .stubs import StubRule, StubFile, make_rule_list

VARIANTS = ["none", "empty_dict", "no_rule_key", "rule_absent", "all", "all_str", "lines2", "lines_empty", "all_and_line", "other_rule_only"]


def build_fix_only(eng, variant, uid, other="stub_009"):
    """-> (dFixOnly, formula all, list of listed line terms, listed formula)"""
    l1 = eng.int("sel1", 1, 9)
    l2 = eng.int("sel2", 1, 9)
    if variant == "none":
        return None, True, [], True
    if variant == "empty_dict":
        return {}, False, [], False
    if variant == "no_rule_key":
        return {"fix": {}}, False, [], False
    if variant == "rule_absent":
        return {"fix": {"rule": {}}}, False, [], False
    if variant == "all":
        return {"fix": {"rule": {uid: ["all"]}}}, True, [], True
    if variant == "all_str":
        return {"fix": {"rule": {uid: "all"}}}, True, [], True
    if variant == "lines2":
        return {"fix": {"rule": {uid: [l1, l2]}}}, False, [l1, l2], True
    if variant == "lines_empty":
        return {"fix": {"rule": {uid: []}}}, False, [], True
    if variant == "all_and_line":
        return {"fix": {"rule": {uid: [l1, "all"]}}}, True, [l1], True
    if variant == "other_rule_only":
        return {"fix": {"rule": {other: ["all"]}}}, False, [], False
    raise ValueError(variant)


@register
class K20a(Harness):
    name = "K20a"
    prop = "C20"
    title = "rule.fix with a --fix_only selection runs _fix_violation exactly for the listed lines of a listed rule (all lines for 'all')"
    functions = ("vsg.rule", "vsg.violation")
    stubs = ("StubRule supplies up to 3 violations on symbolic lines; the file object is a recorder",)
    bounds = "1 rule, 0..3 violations on symbolic lines 1..9, every shape of the selection document (absent keys, rule absent, 'all', list of <=2 symbolic lines, empty list, 'all' mixed with a line)"
    outside = "more than 3 violations per rule / 2 listed lines"

    def params(self, tier):
        return [{"variant": v, "nv": 3 if tier == "thorough" else 2} for v in VARIANTS]

    def run(self, eng, p):
        oFile = StubFile()
        r = StubRule(eng, 0, phases=(1, 1), subphases=(1, 1), max_viol=p["nv"], lines=(1, 9), sev="error", sym_disable=False, sym_fixable=True)
        dFixOnly, f_all, listed, f_listed = build_fix_only(eng, p["variant"], r.unique_id)
        r.fix(oFile, dFixOnly)
        n = p["nv"]
        sel = []
        for j in range(n):
            present = f_of(r.nv > j) if not isinstance(r.nv, int) else r.nv > j
            inlist = Or([f_of(x == r.vlines[j]) for x in listed]) if listed else False
            sel.append(And(present, r.f_fixable(), f_listed, Or(f_all, inlist)))
        clauses = []
        for pattern in itertools.product([False, True], repeat=n):
            cond = And([s if b else Not(s) for s, b in zip(sel, pattern)])
            want = [r.vlines[j] for j in range(n) if pattern[j]][::-1]
            clauses.append(("fixed_exactly_selected", Implies(cond, Eq(list(r.fixed), want))))
        clauses.append(("had_violations", Iff(bool(r.had_violations), Or(sel))))
        nupd = sum(1 for e in oFile.log if e[0] == "update")
        clauses.append(("one_update_iff_fixable", Iff(nupd == 1, r.f_fixable())))
        if oFile.updates:
            clauses.append(("update_carries_selected", Eq(len(oFile.updates[0]), core.Sum([core.If(s, 1, 0) for s in sel]))))
        return clauses

    signature = staticmethod(_sig)


@register
class K20b(Harness):
    name = "K20b"
    prop = "C20"
    title = "rule_list.fix: listing every rule with 'all' equals a plain fix; an empty selection fixes nothing; a one-rule selection leaves the other rule untouched"
    functions = ("vsg.rule_list", "vsg.rule")
    stubs = K20a.stubs
    bounds = "2 rules, symbolic phase 1..3, disable, fixable, severity type, 0..2 violations on symbolic lines"
    outside = "more rules"

    def params(self, tier):
        return [{"mode": m, "pmax": 3 if tier == "quick" else 7} for m in ("all_all", "empty", "only_first")]

    def _mk(self, eng, p, log=None):
        return [StubRule(eng, i, phases=(1, p["pmax"]), subphases=(1, 1), max_viol=2, lines=(1, 9)) for i in range(2)]

    def run(self, eng, p):
        a = self._mk(eng, p)
        b = self._mk(eng, p)  # same declared inputs -> the same symbolic rule set, fresh objects
        fa, fb = StubFile(), StubFile()
        rla, rlb = make_rule_list(a, fa), make_rule_list(b, fb)
        rla.fix(7, [], None)
        if p["mode"] == "all_all":
            sel = {"fix": {"rule": {r.unique_id: ["all"] for r in b}}}
        elif p["mode"] == "empty":
            sel = {"fix": {"rule": {}}}
        else:
            sel = {"fix": {"rule": {b[0].unique_id: ["all"]}}}
        rlb.fix(7, [], sel)
        clauses = []
        if p["mode"] == "all_all":
            clauses.append(("same_fixes", Eq([list(r.fixed) for r in a], [list(r.fixed) for r in b])))
            clauses.append(("same_flag", bool(rla.had_violations) == bool(rlb.had_violations)))
        elif p["mode"] == "empty":
            clauses.append(("nothing_fixed", all(len(r.fixed) == 0 for r in b)))
            clauses.append(("flag_false", not rlb.had_violations))
        else:
            clauses.append(("first_as_plain", Eq(list(a[0].fixed), list(b[0].fixed))))
            clauses.append(("second_untouched", len(b[1].fixed) == 0))
            clauses.append(("flag", Iff(bool(rlb.had_violations), len(b[0].fixed) > 0)))
        return clauses

    signature = staticmethod(_sig)
