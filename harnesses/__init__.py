"""harnesses - one module per property family; PLAN maps a property to the harnesses that decide it."""
from . import k04  # noqa: F401

PLAN = {
    "C04": ["K04a"],
}
