"""harnesses - one module per property family; PLAN maps a property to the harnesses that decide it."""
from . import k04, k13, k16, k20  # noqa: F401

PLAN = {
    "C03": ["K03"],
    "C04": ["K04a", "K16"],
    "C06": ["K06"],
    "C13": ["K13a", "K13b"],
    "C16": ["K16"],
    "C20": ["K20a", "K20b"],
}
