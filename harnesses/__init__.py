"""harnesses - one module per property family; PLAN maps a property to the harnesses that decide it."""
from . import k01, k04, k05, k11, k12, k13, k14, k16, k17, k18, k19, k20, lfam  # noqa: F401

PLAN = {
    "C01": ["K01b", "K01c", "L01"],
    "C02": ["L02"],
    "C03": ["K01b", "K01c", "K03", "K12a", "L03"],
    "C04": ["K04a", "K04c", "K04f", "K04g", "K16", "L04"],
    "C05": ["K05a", "L05", "L05b"],
    "C06": ["K06", "K06c", "L06"],
    "C07": ["L07"],
    "C08": ["K08b", "K08c", "K13b", "K14b", "L08"],
    "C09": ["K08b", "L09"],
    "C10": ["K08c", "L10"],
    "C17": ["K17", "K17b", "K17c", "L17"],
    "C18": ["K13b", "K18a", "K18b", "L18"],
    "C19": ["K19b", "K19c", "L19"],
    "C11": ["K11a", "K11b", "L11"],
    "C12": ["K12a", "K12b", "K12d", "K12e"],
    "C13": ["K08b", "K12a", "K13a", "K13b", "K13c", "K14b"],
    "C14": ["K14a", "K14b"],
    "C15": ["K04f", "K12e", "K14b", "L15", "L15b"],
    "C16": ["K04f", "K16"],
    "C20": ["K20a", "K20b", "L15b", "L20"],
}
