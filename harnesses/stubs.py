"""Stub rules / files shared by the K03, K06, K13, K14, K20 harnesses.

A StubRule is a subclass of the *real* vsg.rule.Rule: configure(), fix(), analyze(), add_violation(),
_filter_out_fix_only_violations(), get_violations() ... are the shipped code.  Only what a concrete
rule_NNN class would supply is replaced: the metadata (phase, subphase, disable, fixable, severity) is
symbolic, `_get_tokens_of_interest/_analyze` report a symbolic number of violations on symbolic lines
and `_fix_violation` records that it ran."""
from sx import core

from vsg import rule, severity, violation
from vsg.vhdlFile.extract import tokens as xtokens


class Tok:
    """minimal stand-in for a token of a region of interest"""

    def __init__(self, tags=()):
        self.code_tags = list(tags)
        self.value = "x"

    def has_code_tag(self, s):
        if self.code_tags == ["all"]:
            return True
        return s in self.code_tags

    def get_value(self):
        return self.value


class StubFile:
    """records what the rule machinery asks of the file object"""

    def __init__(self):
        self.log = []
        self.lAllObjects = []
        self.filename = "stub.vhd"
        self.updates = []

    def update(self, lUpdates, bUpdateMap):
        self.log.append(("update", len(lUpdates)))
        self.updates.append(list(lUpdates))

    def set_token_indent(self):
        self.log.append(("set_token_indent",))

    def fix_blank_lines(self):
        self.log.append(("fix_blank_lines",))

    def fix_trailing_whitespace(self):
        self.log.append(("fix_trailing_whitespace",))

    def update_token_map(self):
        self.log.append(("update_token_map",))

    def __getattr__(self, name):
        # anything else the machinery may ask of the file object is answered by a real (empty) vhdlFile, and recorded
        if name.startswith("__"):
            raise AttributeError(name)
        if "_real" not in self.__dict__:
            from vsg import vhdlFile as _vf

            self.__dict__["_real"] = _vf.vhdlFile([""])
        attr = getattr(self.__dict__["_real"], name)
        if callable(attr):
            def call(*a, **k):
                self.log.append((name,))
                return attr(*a, **k)

            return call
        return attr


class StubRule(rule.Rule):
    def __init__(self, eng, i, phases=(1, 7), subphases=(1, 2), max_viol=2, lines=(1, 9), sev="symbolic", sym_fixable=True, sym_disable=True, prereq=False, log=None):
        super().__init__()
        self.eng = eng
        self.i = i
        self.name = "stub"
        self.identifier = "%03d" % i
        self.unique_id = "stub_%03d" % i
        self.phase = eng.int("phase%d" % i, *phases) if phases[0] != phases[1] else phases[0]
        self.subphase = eng.int("subphase%d" % i, *subphases) if subphases[0] != subphases[1] else subphases[0]
        self.disable = eng.bool("disable%d" % i) if sym_disable else False
        self.fixable = eng.bool("fixable%d" % i) if sym_fixable else True
        self.f_iserr = eng.boolf("iserr%d" % i) if sev == "symbolic" else (sev == "error")
        self._sev = None
        self.nv = eng.int("nviol%d" % i, 0, max_viol) if max_viol > 0 else 0
        self.vlines = [eng.int("line%d_%d" % (i, j), *lines) if lines[0] != lines[1] else lines[0] for j in range(max_viol)]
        self.prerequisites = ["p"] if (prereq and eng.bool("prereq%d" % i)) else []
        self.f_prereq = core.f_of(self.prerequisites != []) if not prereq else None
        self.analyzed = 0
        self.fixed = []  # line numbers handed to _fix_violation, in call order
        self.calllog = log if log is not None else []
        self.groups = []

    # severity is decided lazily: the first read forks on error/warning
    @property
    def severity(self):
        if self._sev is None:
            iserr = self.f_iserr if isinstance(self.f_iserr, bool) else self.eng.branch(self.f_iserr)
            self._sev = severity.error("Error") if iserr else severity.warning("Warning")
        return self._sev

    @severity.setter
    def severity(self, v):
        if hasattr(self, "eng"):
            self._sev = v

    def _get_tokens_of_interest(self, oFile):
        self.calllog.append(("analyze", self.i))
        self.analyzed += 1
        n = int(self.nv) if not isinstance(self.nv, int) else self.nv
        return [xtokens.New(j, self.vlines[j], [Tok()]) for j in range(n)]

    def _analyze(self, lToi):
        for oToi in lToi:
            self.add_violation(violation.New(oToi.get_line_number(), oToi, "fix me"))

    def _fix_violation(self, oViolation):
        self.calllog.append(("fix", self.i))
        self.fixed.append(oViolation.get_line_number())

    # formulas over the declared inputs
    def f_disable(self):
        return core.f_of(self.disable)

    def f_fixable(self):
        return core.f_of(self.fixable)

    def f_has(self):
        return core.f_of(self.nv > 0) if not isinstance(self.nv, int) else self.nv > 0


_TEMPLATE = {}


def make_rule_list(rules, oFile, real_init=False):
    """a real rule_list object around stub rules (constructor bypassed: it would load the ~1000 shipped rules).
    With real_init the shipped constructor itself runs, with only its rule loader answering with the stubs - for harnesses whose
    verdict must not depend on which attributes the constructor derives from the rules."""
    from vsg import rule_list

    if real_init:
        saved = rule_list.load_rules
        rule_list.load_rules = lambda: list(rules)
        try:
            return rule_list.rule_list(oFile, severity.create_list({}))
        finally:
            rule_list.load_rules = saved

    rl = rule_list.rule_list.__new__(rule_list.rule_list)
    # start from the attributes the real constructor sets (built once per process), then swap the ~1000 shipped rules for the stubs
    if "tmpl" not in _TEMPLATE:
        _TEMPLATE["tmpl"] = dict(vars(rule_list.rule_list(StubFile(), severity.create_list({}))))
    for k, v in _TEMPLATE["tmpl"].items():
        if k != "rules":
            rl.__dict__[k] = list(v) if isinstance(v, list) else (dict(v) if isinstance(v, dict) else v)
    rl.rules = list(rules)
    rl.iNumberRulesRan = 0
    rl.lastPhaseRan = 0
    rl.oVhdlFile = oFile
    rl.maximumPhase = 7
    rl.violations = False
    rl.had_violations = False
    rl.oSeverityList = severity.create_list({})
    return rl
