"""L family - the whole product (tokenizer, classifier, all shipped rules, rule_list.fix / check_rules, emit, re-parse)
on corpus fixtures whose letter case inside a window of lines is symbolic (one Bool per letter).

One pipeline run per path yields clauses tagged with the property they belong to ("C01:...", "C02:...", ...);
./check Cxx charges only its own clauses (sx.main)."""
import difflib
import os
import random
import sys

from sx import core
from sx.core import And, Or, Not, Implies, Iff, Eq, f_of, SymStr

import vsg.rules  # noqa: F401  (loads every rule module through the hook)
import vsg.vhdlFile.vhdlFile  # noqa: F401
from vsg import config, parser, rule_list, severity, token
from vsg import tokens as tokens_mod
from vsg import exceptions as vsg_exceptions
from vsg import vhdlFile as vhdlFile_pkg
from vsg.token import delimited_comment, pragma as pragma_tok
from vsg.token_map import process_tokens

VFMOD = sys.modules["vsg.vhdlFile.vhdlFile"]
CORPUS = os.path.join(os.path.dirname(os.path.dirname(os.path.abspath(__file__))), "corpus")


class CLA:
    def __init__(self, style=None, configuration=None):
        self.style = style
        self.configuration = configuration or []
        self.debug = False
        self.fix_only = False
        self.stdin = False
        self.force_fix = False
        self.fix = False
        self.version = False
        self.local_rules = None
        self.junit = None
        self.filename = []


_CONF = {}


def get_conf(name="default"):
    if name not in _CONF:
        if name == "default":
            _CONF[name] = config.New(CLA())
        elif name in ("jcl", "indent_only"):
            _CONF[name] = config.New(CLA(style=name))
        else:
            raise ValueError(name)
    return _CONF[name]


def read_fixture(name):
    path = name if os.path.isabs(name) else os.path.join(CORPUS, name)
    text = open(path, encoding="utf-8", errors="replace").read()
    lines = text.split("\n")
    if lines and lines[-1] == "":
        lines = lines[:-1]
    return [ln.rstrip("\r") for ln in lines]


def sym_lines(eng, lines, window):
    """letters of lines window[0]..window[1] (0-based, inclusive) that are outside comments get a case bit"""
    out = []
    in_block = False
    for i, s in enumerate(lines):
        if window is None or not (window[0] <= i <= window[1]) or "/*" in s or "*/" in s or in_block:
            if "/*" in s and "*/" not in s.split("/*", 1)[1]:
                in_block = True
            elif "*/" in s:
                in_block = False
            out.append(s)
            continue
        cut = s.find("--")
        code = s if cut < 0 else s[:cut]
        # a '--' inside a string literal: keep the whole line concrete (rare; stated in the bound)
        if cut >= 0 and code.count('"') % 2 == 1:
            out.append(s)
            continue
        v = eng.cased("L%d" % i, code)
        out.append(v + s[cut:] if cut >= 0 else v)
    return out


# ---------------------------------------------------------------- token classes
def is_ws(t):
    return isinstance(t, parser.whitespace)


def is_cr(t):
    return isinstance(t, parser.carriage_return)


def is_blank(t):
    return isinstance(t, parser.blank_line)


def is_commentish(t):
    return isinstance(t, (parser.comment, delimited_comment.text, parser.preprocessor)) or type(t).__module__ == pragma_tok.__name__


def is_layout(t):
    return is_ws(t) or is_cr(t) or is_blank(t)


def is_code(t):
    return not is_layout(t) and not is_commentish(t) and not isinstance(t, parser.beginning_of_file)


def snap(oFile):
    return [(t, t.value if t.value is not None else "") for t in oFile.lAllObjects]


def same_snap(a, b):
    if len(a) != len(b):
        return False
    for (t1, v1), (t2, v2) in zip(a, b):
        if t1 is not t2 or (v1 is not v2 and not (type(v1) is str and type(v2) is str and v1 == v2)):
            return False
    return True


def lower_of(v):
    return v.lower() if isinstance(v, (str, SymStr)) else v


def guess(v):
    return v.guess() if isinstance(v, SymStr) else v


def lines_of(sn):
    """list of per-line strings (symbolic where needed) from a snapshot"""
    out = []
    cur = []
    for t, v in sn:
        if is_cr(t):
            out.append(core.sx_join("", cur))
            cur = []
        else:
            cur.append(v)
    if cur:
        out.append(core.sx_join("", cur))
    return out


def is_literal_token(t, v):
    """character literal, string literal or extended identifier (compared exactly); bit string literals are not (their case is insignificant)"""
    if type(t).__module__.endswith("bit_string_literal"):
        return False
    g = guess(v)
    return g[:1] in ('"', "'", "\\")


def is_label_token(t):
    return "label" in type(t).__name__


STRUCT_KEYWORDS = {
    "is", "component", "entity", "architecture", "process", "function", "procedure", "package", "body", "block", "generate", "case", "if", "loop", "record",
    "units", "protected", "context", "configuration", "for", "postponed", "end", "label", "begin", "then", "open",
}


class Monitor:
    """wraps every rule instance of a rule_list: snapshots around fix(), captures violations handed to oFile.update and
    regions of interest handed to _analyze; collects tagged clauses"""

    def __init__(self, oFile, rl, want=("C01", "C02", "C03", "C07", "C10", "C18")):
        self.oFile = oFile
        self.rl = rl
        self.clauses = []
        self.want = set(want)
        self.events = []  # (rule, kind) of applications that changed something
        self.last_update = None
        self.in_second_fix = False
        self.map_dirty = True
        self.list_key = None
        self.tags0 = {id(t): tuple(t.code_tags) for t in oFile.lAllObjects if t.code_tags}  # code tags as assigned when the file was read
        real_update = oFile.update

        def update(lUpdates, bUpdateMap, _real=real_update):
            self.last_update = [(u.get_line_number(), u) for u in lUpdates]
            return _real(lUpdates, bUpdateMap)

        oFile.update = update
        for r in rl.rules:
            self._wrap(r)

    def add(self, name, formula, rule=None):
        self.clauses.append((name if rule is None else "%s@%s" % (name, rule.unique_id), formula))

    def _wrap(self, r):
        real_fix = r.fix
        real_toi = getattr(r, "_get_tokens_of_interest", None)
        mon = self

        def toi(oFile, _real=real_toi, r=r):
            if "C18" in mon.want and not mon.in_second_fix:
                key = (id(oFile.lAllObjects), len(oFile.lAllObjects))
                if key != mon.list_key:  # the token list was replaced or resized outside a rule's fix (phase-1 normalisation)
                    mon.list_key = key
                    mon.map_dirty = True
                if mon.map_dirty:
                    mon.check_token_map(r)
            lToi = _real(oFile)
            if "C18" in mon.want and lToi:
                mon.check_toi(r, oFile, lToi)
            return lToi

        def fix(oFile, dFixOnly=None, _real=real_fix, r=r):
            if mon.in_second_fix:
                return _real(oFile, dFixOnly)
            before = snap(oFile)
            mon.last_update = None
            _real(oFile, dFixOnly)
            after = snap(oFile)
            if same_snap(before, after):
                return
            mon.map_dirty = True
            mon.events.append(r.unique_id)
            mon.on_change(r, before, after, mon.last_update or [])
            if "C10" in mon.want:
                mon.in_second_fix = True
                try:
                    _real(oFile, dFixOnly)
                finally:
                    mon.in_second_fix = False
                again = snap(oFile)
                mon.add("C10:second_fix_changes_nothing", mon.snap_equal(after, again), r)

        r.fix = fix
        if real_toi is not None:
            r._get_tokens_of_interest = toi

    # ------------------------------------------------------------ oracles
    def snap_equal(self, a, b):
        if len(a) != len(b):
            return False
        cl = []
        for (t1, v1), (t2, v2) in zip(a, b):
            if t1 is not t2 and type(t1) is not type(t2):
                return False
            if v1 is not v2:
                cl.append(Eq(v1, v2))
        return And(cl)

    def check_token_map(self, r):
        fresh = process_tokens(self.oFile.lAllObjects)
        cur = self.oFile.oTokenMap
        ok = True
        try:
            ok = fresh.dMap == cur.dMap
        except Exception:
            ok = False
        self.add("C18:token_map_matches_token_list", ok, r)
        self.map_dirty = False

    def check_toi(self, r, oFile, lToi):
        lAll = oFile.lAllObjects
        ok = True
        for oToi in lToi:
            try:
                i = oToi.iStartIndex
                toks = oToi.lTokens
            except AttributeError:
                continue
            if i is None or toks is None:
                continue
            seg = lAll[i:i + len(toks)]
            if len(seg) != len(toks) or any(a is not b for a, b in zip(seg, toks)):
                # a region of interest may start with a virtual beginning_of_file token
                if toks and isinstance(toks[0], parser.beginning_of_file):
                    seg = lAll[i:i + len(toks) - 1]
                    if len(seg) == len(toks) - 1 and all(a is b for a, b in zip(seg, toks[1:])):
                        continue
                ok = False
                break
        self.add("C18:region_of_interest_is_slice", ok, r)

    def on_change(self, r, before, after, updates):
        if "C11" in self.want and self.tags0:
            amap = {id(t): v for t, v in after}
            cl = []
            for t, v in before:
                if is_layout(t):
                    continue
                tags = self.tags0.get(id(t))
                if tags and (r.unique_id in tags or "all" in tags):
                    if id(t) not in amap:
                        cl.append(False)
                    elif amap[id(t)] is not v:
                        cl.append(Eq(amap[id(t)], v))
            if cl:
                self.add("C11:tagged_token_untouched_by_its_rule", And(cl), r)
        phase = r.phase
        groups = set(r.groups)
        structural = phase == 1 or "structure" in groups
        bcode = [(t, v) for t, v in before if is_code(t)]
        acode = [(t, v) for t, v in after if is_code(t)]
        bcomm = [(t, v) for t, v in before if is_commentish(t)]
        acomm = [(t, v) for t, v in after if is_commentish(t)]
        # ---- C03 / C01 for the non-structural phases
        if not structural:
            same_objs = len(bcode) == len(acode) and all(a[0] is b[0] for a, b in zip(bcode, acode))
            if "C01" in self.want:
                self.add("C01:code_tokens_same_objects_outside_phase1", same_objs, r)
            if same_objs:
                cl_case, cl_exact, cl_lit = [], [], []
                for (t, v1), (_, v2) in zip(bcode, acode):
                    if v1 is v2:
                        continue
                    cl_exact.append(Eq(v1, v2))
                    cl_case.append(And(len(v1) == len(v2), Eq(lower_of(v1), lower_of(v2))))
                    if is_literal_token(t, v1):
                        cl_lit.append(Eq(v1, v2))
                if phase == 6:
                    if "C01" in self.want:
                        self.add("C01:case_rule_changes_case_only", And(cl_case), r)
                        self.add("C01:literal_untouched", And(cl_lit), r)
                    if "C03" in self.want:
                        self.add("C03:case_rule_changes_case_only", And(cl_case), r)
                        self.add("C03:case_rule_leaves_literals", And(cl_lit), r)
                else:
                    if "C01" in self.want:
                        self.add("C01:code_values_untouched", And(cl_exact), r)
                    if "C03" in self.want:
                        self.add("C03:phase%d_rule_leaves_code_text" % phase, And(cl_exact), r)
            if "C03" in self.want:
                if phase in (2, 3, 4, 5):
                    self.add("C03:phase%d_rule_changes_layout_only" % phase, And(same_objs, self.comments_identical(bcomm, acomm, exact=False)), r)
                elif phase == 6:
                    same_all = len(before) == len(after) and all(a[0] is b[0] for a, b in zip(before, after))
                    lay = And([Eq(v1, v2) for (t, v1), (_, v2) in zip(before, after) if not is_code(t) and v1 is not v2]) if same_all else False
                    self.add("C03:case_rule_keeps_tokens_and_layout", lay, r)
                elif phase == 7:
                    self.add("C03:naming_rule_changes_nothing", False, r)
            if "C03" in self.want and (not r.fixable or r.disable or r.severity.type != severity.error_type):
                self.add("C03:report_only_rule_changed_the_file", False, r)
        else:
            if "C01" in self.want:
                self.structure_diff(r, bcode, acode)
        # ---- C02
        if "C02" in self.want:
            removal_ok = type(r).__mro__[1].__name__ in ("remove_comments_from_end_of_lines_bounded_by_tokens", "multiline_structure") or any(
                c.__name__ in ("remove_comments_from_end_of_lines_bounded_by_tokens", "multiline_structure") for c in type(r).__mro__
            )
            comment_rule = r.name in ("comment", "block_comment", "whitespace") or "comment" in type(r).__mro__[1].__name__
            if not removal_ok:
                self.add("C02:comments_survive", self.comments_identical(bcomm, acomm, exact=not comment_rule), r)
            else:
                # a rule documented to remove comments removes whole comments: a delimited comment never loses only one delimiter
                nb = lambda sn, cls: sum(1 for t, _ in sn if isinstance(t, cls))
                bal_b = nb(bcomm, delimited_comment.beginning) == nb(bcomm, delimited_comment.ending)
                bal_a = nb(acomm, delimited_comment.beginning) == nb(acomm, delimited_comment.ending)
                self.add("C02:delimited_comment_removed_whole_or_not_at_all", bal_a or not bal_b, r)
            self.add("C02:comment_followed_by_line_break", self.comments_end_lines(after) <= self.comments_end_lines(before), r)
        # ---- C07
        if "C07" in self.want and phase in (2, 4, 5, 6) and not structural:
            bl, al = lines_of(before), lines_of(after)
            if len(bl) != len(al):
                self.add("C07:line_count_unchanged", False, r)
            else:
                reported = set()
                for ln, _ in updates:
                    reported.add(int(ln) if not isinstance(ln, int) else ln)
                cl = []
                for i, (x, y) in enumerate(zip(bl, al)):
                    same = True if x is y else Eq(x, y)
                    if (i + 1) in reported:
                        cl.append(("C07:reported_line_changed", Not(same)))
                    else:
                        cl.append(("C07:unreported_line_untouched", same))
                self.add("C07:unreported_line_untouched", And([c for n, c in cl if n.endswith("untouched")]), r)
                self.add("C07:reported_line_changed", And([c for n, c in cl if n.endswith("changed")]), r)
                self.add("C07:reported_lines_in_file", all(1 <= x <= len(bl) for x in reported), r)

    def comments_identical(self, b, a, exact=True):
        if len(a) != len(b) or any(type(x[0]) is not type(y[0]) for x, y in zip(b, a)):
            return False
        cl = []
        for (t, v1), (_, v2) in zip(b, a):
            if v1 is v2:
                continue
            if exact:
                cl.append(Eq(v1, v2))
            else:
                cl.append(Eq(norm_comment(v1), norm_comment(v2)))
        return And(cl)

    def comments_end_lines(self, after):
        """ids of '--' comment tokens that are not directly followed by a line break (i.e. that swallow what follows)"""
        bad = set()
        for i, (t, v) in enumerate(after):
            if isinstance(t, parser.comment) and not isinstance(t, (delimited_comment.beginning, delimited_comment.ending)):
                j = i + 1
                while j < len(after) and is_blank(after[j][0]) and guess(after[j][1]) == "":
                    j += 1  # a blank_line token carries no text
                if j >= len(after) or not is_cr(after[j][0]):
                    bad.add(id(t))
        return bad

    def structure_diff(self, r, bcode, acode):
        """phase-1 rule: code tokens may only be added/removed as documented (optional keywords, names after end, labels, one pair of
        parentheses, split declarations); everything else must stay, in order"""
        bl = [guess(lower_of(v)) for _, v in bcode]
        al = [guess(lower_of(v)) for _, v in acode]
        blab = set(guess(lower_of(v)) for t, v in bcode if is_label_token(t))
        alab = set(guess(lower_of(v)) for t, v in acode if is_label_token(t))
        splitter = any(c.__name__.startswith("separate_multiple") for c in type(r).__mro__)
        ok = True
        detail = []
        sm = difflib.SequenceMatcher(a=bl, b=al, autojunk=False)
        ins, dele = [], []
        for tag, i1, i2, j1, j2 in sm.get_opcodes():
            if tag == "equal":
                continue
            # a name that directly follows 'end' / 'end <keyword>' is the documented optional closing name even when, in an ugly
            # fixture, it does not match the declared one ('function func_1 ... end function func1;')
            dele += [w for k, w in enumerate(bl[i1:i2], i1) if not ("end" in bl[max(0, k - 2):k] and tag == "delete" and w not in ("(", ")", ":", ";", ","))]
            ins += al[j1:j2]
        present = set(bl)
        for w in ins:
            if w in STRUCT_KEYWORDS or w in ("(", ")", ":", ";", ",") or w in present or w in alab:
                continue
            ok = False
            detail.append("+" + w)
        for w in dele:
            if w in STRUCT_KEYWORDS or w in ("(", ")", ":", ";", ",") or w in al or w in blab:
                continue
            ok = False
            detail.append("-" + w)
        # balanced parentheses and no net duplication of statement terminators beyond a split declaration
        if ins.count("(") != ins.count(")") or dele.count("(") != dele.count(")"):
            ok = False
            detail.append("unbalanced parentheses")
        n_semi = ins.count(";") - dele.count(";")
        n_comma = dele.count(",") - ins.count(",")
        if n_semi != 0 and n_semi != n_comma and not splitter:
            ok = False
            detail.append("semicolons %+d commas %+d" % (n_semi, -n_comma))
        # exact values of kept tokens (case!) must not change in phase 1
        kept = []
        bi = {id(t): v for t, v in bcode}
        for t, v in acode:
            if id(t) in bi and bi[id(t)] is not v:
                kept.append(Eq(bi[id(t)], v))
        self.add("C01:structure_rule_diff_is_documented_kind", ok, r)
        self.add("C01:structure_rule_keeps_token_text", And(kept), r)
        self.last_structure_detail = detail


def norm_comment(v):
    """documented normalisation of comment rules: blanks after '--', tabs -> spaces (compare with blanks removed)"""
    if isinstance(v, SymStr):
        return v.replace("\t", "").replace(" ", "")
    return v.replace("\t", "").replace(" ", "")


def build(eng, fixture, window, confname="default"):
    lines = read_fixture(fixture)
    slines = sym_lines(eng, lines, window) if eng.symbolic or window is not None else lines
    conf = get_conf2(confname)
    oFile = vhdlFile_pkg.vhdlFile(slines, configuration=conf)
    oFile.set_indent_map(conf.dIndent)
    rl = rule_list.rule_list(oFile, conf.severity_list)
    rl.configure(conf)
    return lines, slines, conf, oFile, rl


# ---------------------------------------------------------------- configurations
_LIT = {}


def _option_literals(mod, k):
    import ast
    import inspect

    key = (mod.__name__, k)
    if key in _LIT:
        return _LIT[key]
    out = set()
    try:
        tree = ast.parse(inspect.getsource(mod))
    except Exception:
        _LIT[key] = out
        return out

    def consts(n):
        if isinstance(n, ast.Constant) and isinstance(n.value, str):
            return [n.value]
        if isinstance(n, (ast.List, ast.Tuple, ast.Set)):
            return [c for e in n.elts for c in consts(e)]
        return []

    for n in ast.walk(tree):
        if isinstance(n, ast.Compare):
            sides = [n.left] + list(n.comparators)
            if any(isinstance(x, ast.Attribute) and x.attr == k for x in sides):
                for x in sides:
                    out.update(consts(x))
    _LIT[key] = out
    return out


def option_domain(r, k):
    """values the string option k of rule r can take, as far as the shipped source tells"""
    import sys as _s

    v = getattr(r, k, None)
    if not isinstance(v, str) or k in ("severity", "user_error_message", "regex", "indent_style", "case", "units"):
        return []
    d = {v}
    for cls in type(r).__mro__:
        m = _s.modules.get(cls.__module__)
        if m is not None and cls.__module__.startswith("vsg."):
            d |= _option_literals(m, k)
    if v in ("yes", "no"):
        d |= {"yes", "no"}
    if v in ("ignore", "add_new_line", "remove_new_line") and len(d) == 1:
        d |= {"ignore", "add_new_line", "remove_new_line"}
    return sorted(d)


def _flip_conf(kind):
    import copy

    base = get_conf("default")
    c = config.config()
    c.dIndent = base.dIndent
    c.dFixOnly = None
    c.severity_list = base.severity_list
    d = copy.deepcopy({k: v for k, v in base.dConfig.items() if k != "pragma"})
    d["pragma"] = base.dConfig["pragma"]
    rules = {}
    if kind == "flipA":
        rules["global"] = {
            "case": "upper", "compact_alignment": "no", "blank_line_ends_group": "no", "comment_line_ends_group": "no", "indent_style": "smart_tabs",
            "if_control_statements_ends_group": "yes", "case_control_statements_ends_group": "yes", "loop_control_statements_ends_group": "yes",
            "ignore_single_line": "no", "align_left": "yes", "align_paren": "no",
        }
    elif kind == "flipC":
        rules["global"] = {"number_of_spaces": ">1", "case": "upper_or_lower"}
    elif kind == "flipE":
        rules["global"] = {"case_control_statements_ends_group": "break_on_case_or_end_case", "blank_line_ends_group": "no", "comment_line_ends_group": "no",
                           "include_type_is_keyword": "yes", "aggregate_parens_ends_group": "yes", "ignore_single_line_aggregates": "yes", "align_to": "current_indent"}
    elif kind == "flipF":
        # rules switched off / report-only / warnings: they must stay silent resp. must not touch the file, and the rest must cope
        rules["whitespace_001"] = {"disable": True}
        rules["whitespace_200"] = {"disable": True}
        rules["group"] = {"case": {"severity": "Warning"}, "alignment": {"fixable": False}, "blank_line": {"disable": True}}
    elif kind == "flipD":
        rules["global"] = {"number_of_spaces": "2+", "indent_size": 4}
    elif kind == "flipB":
        o = vhdlFile_pkg.vhdlFile([""])
        rl = rule_list.rule_list(o, base.severity_list)
        swap = {"require_blank_line": "no_blank_line", "no_blank_line": "require_blank_line", "no_code": "allow_comment", "allow_comment": "require_comment"}
        yn = {"yes": "no", "no": "yes"}
        for r in rl.rules:
            dd = {}
            for k in r.configuration:
                v = getattr(r, k, None)
                if k == "style" and v in swap:
                    dd[k] = swap[v]
                elif k in ("first_paren_new_line", "last_paren_new_line", "open_paren_new_line", "close_paren_new_line", "new_line_after_comma", "assign_on_single_line", "include_lines_without_comments", "wrap_at_when", "align_when_keywords", "align_else_keywords", "new_line_after_assign") and v in yn:
                    dd[k] = yn[v]
                elif k == "number_of_spaces" and v == 1:
                    dd[k] = 2
            if dd:
                rules[r.unique_id] = dd
    elif kind == "flipH":
        # the 81 rules that ship disabled are switched on (block comments, prefix/suffix naming, ...): no other configuration ever runs them
        o = vhdlFile_pkg.vhdlFile([""])
        rl = rule_list.rule_list(o, base.severity_list)
        for r in rl.rules:
            if r.disable and not rule_list.is_rule_deprecated(r):
                rules[r.unique_id] = {"disable": False}
    elif kind.startswith("flipJ"):
        # like flipI, but only about half of the options move (chosen by a hash of rule, option and variant), so that a changed option
        # also meets the default value of its neighbours
        import zlib

        r_ = int(kind[5:])
        o = vhdlFile_pkg.vhdlFile([""])
        rl = rule_list.rule_list(o, base.severity_list)
        for r in rl.rules:
            if rule_list.is_rule_deprecated(r):
                continue
            dd = {}
            for k in r.configuration:
                v = getattr(r, k, None)
                alts = [x for x in option_domain(r, k) if x != v]
                h = zlib.crc32(("%s.%s.%d" % (r.unique_id, k, r_)).encode())
                if alts and h % 2 == 0:
                    dd[k] = alts[(h // 2) % len(alts)]
            if dd:
                rules[r.unique_id] = dd
    elif kind.startswith("flipI"):
        # option sweep: every string-valued option of every rule takes the r-th *other* value of its domain, the domain being read off the
        # rule's own source (string literals the option is compared with, in the modules of the rule's class hierarchy)
        r_ = int(kind[5:])
        o = vhdlFile_pkg.vhdlFile([""])
        rl = rule_list.rule_list(o, base.severity_list)
        for r in rl.rules:
            if rule_list.is_rule_deprecated(r):
                continue
            dd = {}
            for k in r.configuration:
                v = getattr(r, k, None)
                alts = [x for x in option_domain(r, k) if x != v]
                if alts:
                    dd[k] = alts[r_ % len(alts)]
            if dd:
                rules[r.unique_id] = dd
    if kind == "flipG":
        # user-ordered pragma patterns (single before open/close, as a user may well write them); precedence must not depend on the order
        pats = base.dConfig["pragma"]["patterns"]
        d["pragma"] = {"patterns": {"single": list(pats["single"]), "open": list(pats["open"]), "close": list(pats["close"])}}
        config.add_pragma_regular_expressions(d)
    d["rule"] = rules
    c.dConfig = d
    return c


def get_conf2(name):
    if name in ("flipA", "flipB", "flipC", "flipD", "flipE", "flipF", "flipG", "flipH") or name.startswith(("flipI", "flipJ")):
        if name not in _CONF:
            _CONF[name] = _flip_conf(name)
        return _CONF[name]
    return get_conf(name)


_BASE_ROLES = {}


def base_roles(fixture):
    if fixture not in _BASE_ROLES:
        o = vhdlFile_pkg.vhdlFile(read_fixture(fixture))
        _BASE_ROLES[fixture] = [type(t).__module__ + "." + type(t).__name__ for t in o.lAllObjects]
    return _BASE_ROLES[fixture]


def violations_of(rl):
    out = []
    for r in rl.rules:
        for v in r.violations:
            out.append((r.unique_id, v.get_line_number(), v.get_solution()))
    return out


def _attr_state(t):
    """every instance attribute of a token other than its text (caches written during analysis are state too)"""
    out = []
    for k, v in sorted(vars(t).items()):
        if k in ("value", "lower_value"):
            continue
        if isinstance(v, (str, int, float, bool, type(None))):
            out.append((k, v))
        elif isinstance(v, (list, tuple)):
            out.append((k, tuple(x if isinstance(x, (str, int, float, bool, type(None))) else type(x).__name__ for x in v)))
        else:
            out.append((k, type(v).__name__))
    return tuple(out)


def tok_state(oFile):
    return [(type(t), t.value, t.indent, t.hierarchy, _attr_state(t)) for t in oFile.lAllObjects]


def state_equal(a, b):
    if len(a) != len(b):
        return False
    cl = []
    for x, y in zip(a, b):
        if x[0] is not y[0] or x[2] != y[2] or x[3] != y[3] or x[4] != y[4]:
            return False
        if x[1] is not y[1]:
            cl.append(Eq(x[1], y[1]))
    return And(cl)


def list_eq(A, B):
    """equality of two lists of tuples whose components may be symbolic strings"""
    if len(A) != len(B):
        return False
    return And([Eq(tuple(a), tuple(b)) for a, b in zip(A, B)])


def map_snapshot(oFile):
    m = oFile.oTokenMap
    try:
        return {k: ({kk: list(vv) if isinstance(vv, list) else vv for kk, vv in v.items()} if isinstance(v, dict) else (list(v) if isinstance(v, list) else v)) for k, v in m.__dict__.items()}
    except Exception:
        return None


def pipeline(eng, p):
    """one path through the whole product; returns tagged clauses for the property p['prop']"""
    prop = p["prop"]
    fixture, window, confname = p["fixture"], p.get("window"), p.get("conf", "default")
    lines = read_fixture(fixture)
    if p.get("vary") and window:
        lines = vary_layout(eng, lines, tuple(window), p["vary"], p.get("vary_seed", 0))
        try:
            vhdlFile_pkg.vhdlFile(list(lines))
        except vsg_exceptions.ClassifyError:
            return True  # this layout variant is not accepted by VSG: outside the property's quantifier (L05b judges acceptance)
        except Exception:
            if prop == "C19":
                raise  # a rejection that is not a ClassifyError is C19's business (and L05b's); the other properties quantify over accepted inputs
            return True
        slines = lines
    else:
        slines = sym_lines(eng, lines, tuple(window) if window else None)
    conf = get_conf2(confname)
    clauses = []
    oFile = vhdlFile_pkg.vhdlFile(slines, configuration=conf)
    oFile.set_indent_map(conf.dIndent)
    if prop in ("C04", "C05"):
        emitted = oFile.get_lines()[1:]
        clauses.append(("C04:emit_equals_input", Eq(list(emitted), list(slines))))
        clauses.append(("C04:every_token_classified", not any(type(t) is parser.item for t in oFile.lAllObjects)))
        roles = [type(t).__module__ + "." + type(t).__name__ for t in oFile.lAllObjects]
        if not p.get("vary"):
            clauses.append(("C05:roles_independent_of_case", roles == base_roles(fixture)))
        if prop == "C05" or not p.get("fix"):
            return clauses
    rl = rule_list.rule_list(oFile, conf.severity_list)
    rl.configure(conf)
    if prop == "C06":
        s0, m0 = tok_state(oFile), map_snapshot(oFile)
        rl.check_rules(bAllPhases=True)
        v1 = violations_of(rl)
        s1, m1 = tok_state(oFile), map_snapshot(oFile)
        clauses.append(("C06:analysis_leaves_tokens_untouched", state_equal(s0, s1)))
        clauses.append(("C06:analysis_leaves_token_index_untouched", m0 == m1))
        rl.clear_violations()
        rl.check_rules(bAllPhases=True)
        v2 = violations_of(rl)
        clauses.append(("C06:repeatable", list_eq(v1, v2)))
        # every reporting rule alone on a fresh parse reports the same (no dependence on the rules analysed before it)
        reporting = sorted(set(v[0] for v in v1))[: p.get("max_solo", 6)]
        for uid in reporting:
            o2 = vhdlFile_pkg.vhdlFile(slines, configuration=conf)
            o2.set_indent_map(conf.dIndent)
            rl2 = rule_list.rule_list(o2, conf.severity_list)
            rl2.configure(conf)
            r2 = [r for r in rl2.rules if r.unique_id == uid][0]
            r2.analyze(o2)
            solo = [(uid, v.get_line_number(), v.get_solution()) for v in r2.violations]
            full = [v for v in v1 if v[0] == uid]
            clauses.append(("C06:independent_of_other_rules@" + uid, list_eq(solo, full)))
        return clauses
    want = {"C01": ("C01",), "C02": ("C02",), "C03": ("C03",), "C07": ("C07",), "C10": ("C10",), "C18": ("C18",), "C19": (), "C08": (), "C09": ()}.get(prop, ())
    mon = Monitor(oFile, rl, want=want)
    rl.fix()
    clauses += mon.clauses
    if prop == "C18":
        mon.check_token_map(rl.rules[0])
        clauses += mon.clauses[-1:]
    if prop in ("C01", "C02"):
        # whole run: the code-token text is the input's, up to the documented structural additions/removals
        pass
    if prop in ("C08", "C09"):
        y1 = oFile.get_lines()[1:]
        rl.clear_violations()
        rl.check_rules(bAllPhases=True)
        v_model = violations_of(rl)
        from vsg import exceptions as _exc

        try:
            o2 = vhdlFile_pkg.vhdlFile(list(y1), configuration=conf)
        except _exc.ClassifyError:
            clauses.append(("%s:fixed_text_is_accepted" % prop, False))
            return clauses
        clauses.append(("%s:fixed_text_is_accepted" % prop, True))
        o2.set_indent_map(conf.dIndent)
        if prop == "C08":
            a = [(type(t), t.value, t.indent) for t in oFile.lAllObjects]
            b = [(type(t), t.value, t.indent) for t in o2.lAllObjects]
            same_len = len(a) == len(b)
            clauses.append(("C08:reparse_same_token_count", same_len))
            if same_len:
                clauses.append(("C08:reparse_same_roles", all(x[0] is y[0] for x, y in zip(a, b))))
                clauses.append(("C08:reparse_same_values", And([Eq(x[1], y[1]) for x, y in zip(a, b) if x[1] is not y[1]])))
                clauses.append(("C08:reparse_same_indent", all(x[2] == y[2] for x, y in zip(a, b) if not is_layout_type(x[0]))))
            rl2 = rule_list.rule_list(o2, conf.severity_list)
            rl2.configure(conf)
            rl2.check_rules(bAllPhases=True)
            clauses.append(("C08:report_after_fix_equals_fresh_check", list_eq(sorted_v(v_model), sorted_v(violations_of(rl2)))))
        else:
            rl2 = rule_list.rule_list(o2, conf.severity_list)
            rl2.configure(conf)
            rl2.fix()
            y2 = o2.get_lines()[1:]
            clauses.append(("C09:second_fix_changes_nothing", Eq(list(y1), list(y2))))
    return clauses


def is_layout_type(cls):
    return issubclass(cls, (parser.whitespace, parser.carriage_return, parser.blank_line))


def sorted_v(vs):
    try:
        return sorted(vs, key=lambda v: (v[0], int(v[1]), str(v[2])))
    except Exception:
        return vs


# ---------------------------------------------------------------- harness classes (one per property)
import random

from sx.runner import Harness, register

PINNED = {
    "C01": ["fixtures/protected_type_body__rule_401_test_input.vhd", "fixtures/bit_string_literal__rule_500_test_input.vhd", "fixtures/signal__rule_015_test_input.vhd"],
    "C02": ["fixtures/variable_assignment__rule_006_test_input.vhd", "fixtures/whitespace__rule_002_test_input.vhd"],
    "C03": ["fixtures/bit_string_literal__rule_500_test_input.vhd", "fixtures/constant__rule_400_test_input.vhd"],
    "C06": [("fixtures/case__rule_007_test_input.vhd", "flipB"), ("fixtures/process__rule_015_test_input.vhd", "flipB"), ("fixtures/entity__rule_003_test_input.vhd", "flipB")],
    "C07": ["fixtures/port__rule_010_test_input.vhd"],
    "C10": ["fixtures/variable__rule_011_test_input.vhd", ("fixtures/process__rule_400_test_input.vhd", "flipE"), ("fixtures/case__rule_001_test_input.vhd", "flipE")],
    "C18": ["fixtures/constant__rule_012_test_input.vhd", "fixtures/when__rule_001_test_input.vhd"],
    "C19": ["fixtures/constant__rule_017_test_input.vhd", "fixtures/when__rule_001_test_input.vhd", ("fixtures/constant__rule_016_test_input.vhd", "flipA"), ("fixtures/signal__rule_006_test_input.vhd", "flipC"), ("fixtures/port__rule_007_test_input.vhd", "flipD")],
}
ALL_FIXTURES = sorted("fixtures/" + f for f in os.listdir(os.path.join(CORPUS, "fixtures")) if f.endswith(".vhd"))
SKELETONS = sorted("skeletons/" + f for f in os.listdir(os.path.join(CORPUS, "skeletons")) if f.endswith(".vhd")) if os.path.isdir(os.path.join(CORPUS, "skeletons")) else []


def code_lines(fixture):
    out = []
    for i, s in enumerate(read_fixture(fixture)):
        c = s.split("--")[0]
        if sum(ch.isalpha() for ch in c) >= 3:
            out.append(i)
    return out


FLIPI = ["flipI0", "flipI1", "flipI2", "flipI3", "flipI4", "flipJ0", "flipJ1"]
NSEEDS = 3  # the selection depends on VERIF_SEED % NSEEDS: every selection that can be drawn has been run and triaged on the pinned tree


def pick_params(prop, tier, seed):
    seed = seed % NSEEDS
    rnd = random.Random(1000 * seed + int(prop[1:]))
    # an oracle observes the whole fix/check run whatever the window is, so breadth = number of fixtures x configurations
    nfiles, nwin, wlen = (60, 1, 1) if tier == "quick" else (len(ALL_FIXTURES), 1, 2)
    if prop in ("C06", "C08", "C09"):
        nfiles = 30 if tier == "quick" else 480
    files = list(PINNED.get(prop, [])) + SKELETONS
    names = [f[0] if isinstance(f, tuple) else f for f in files]
    pool = [f for f in ALL_FIXTURES if f not in names]
    files += rnd.sample(pool, min(nfiles, len(pool)))
    out = []
    for k, f in enumerate(files):
        conf = "default"
        if tier == "thorough":
            conf = (["default", "jcl", "flipA", "flipB", "flipC", "flipD", "flipE", "flipF", "flipG", "flipH"] + FLIPI)[(k + 3 * seed) % (10 + len(FLIPI))]  # three seeds see three different configurations per fixture
        elif k % 3 != 0:
            # two fixtures out of three run under a non-default configuration: the default one is what the repository's own tests exercise most
            conf = (["jcl", "flipA", "flipB", "flipC", "flipD", "flipE", "flipF", "flipH"] + FLIPI)[(k - k // 3 + seed) % (8 + len(FLIPI))]
        if isinstance(f, tuple):
            f, conf = f
        cl = code_lines(f)
        if not cl:
            out.append({"prop": prop, "fixture": f, "window": None, "conf": conf})
            continue
        for _ in range(nwin):
            lo = rnd.choice(cl)
            out.append({"prop": prop, "fixture": f, "window": [lo, lo + wlen - 1], "conf": conf})
    # structural neighbourhoods: layout alternatives at 3 positions of a window (engine-forked), full pipeline on each
    if prop in ("C01", "C02", "C03", "C07", "C08", "C09", "C10", "C18", "C19"):
        nv = 12 if tier == "quick" else 200
        for j, f in enumerate(rnd.sample(ALL_FIXTURES, nv)):
            txt = read_fixture(f)
            cl = [i for i in code_lines(f) if line_is_relayoutable(txt[i])]
            if not cl:
                continue
            # two windows out of three are drawn around a line on which some rule reports (that is where a rule's region of interest is)
            hot = [k - 1 for k in violations_by_line(f) if 1 <= k - 1 < len(txt) and line_is_relayoutable(txt[k - 1])]
            lo = rnd.choice(hot) if (hot and rnd.random() < 0.67) else rnd.choice(cl)
            lo = max(0, lo - rnd.randrange(2))
            vconf = "default" if tier == "quick" else ["default", "flipB", "default", "jcl", "default", "flipA", "default", "flipH", "default", "flipE", "default", "flipI0", "default", "flipI4", "default", "flipJ0", "default", "flipJ1", "default", "flipI1"][j % 20]
            out.append({"prop": prop, "fixture": f, "window": [lo, lo + 1], "conf": vconf, "vary": 3, "vary_seed": rnd.randrange(10**6)})
    return out


def l_signature(values, p, detail):
    if detail.get("kind") == "exception":
        return "exception:%s@%s" % (detail.get("type"), __import__("re").sub(r":\d+:", ":", (detail.get("where") or ["?"])[-1]))
    return "vc:" + ",".join(sorted(set(detail.get("failed", []))))


def l_describe(values, p):
    """the concrete lines of the window chosen by the solver model"""
    lines = read_fixture(p["fixture"])
    out = {"fixture": p["fixture"], "conf": p.get("conf", "default"), "window": p.get("window"), "lines": {}}
    if p.get("vary") and p.get("window"):
        eng = core.ConcreteEngine(values)
        new = vary_layout(eng, lines, tuple(p["window"]), p["vary"], p.get("vary_seed", 0))
        out["layout_choices"] = {k: v for k, v in values.items() if k.startswith(("gap", "eol", "indent", "explode"))}
        out["lines"] = {i + 1: new[i] for i in range(max(0, p["window"][0] - 1), min(len(new), p["window"][1] + 8))}
        return out
    if p.get("window"):
        eng = core.ConcreteEngine(values)
        for i, s in enumerate(sym_lines(eng, lines, tuple(p["window"]))):
            if p["window"][0] <= i <= p["window"][1]:
                out["lines"][i + 1] = s
    return out


def make_L(prop, title, extra_functions=()):
    class L(Harness):
        name = "L" + prop[1:]
        parallel_params = True
        per_clause_findings = True
        functions = ("vsg.tokens", "vsg.vhdlFile", "vsg.rule_list", "vsg.rule", "vsg.rules", "vsg.token_map", "vsg.parser") + tuple(extra_functions)
        stubs = ()
        assumptions = ("the token structure of the input (which tokens, line breaks, comments) is that of the corpus fixture; only the letter case inside the window is symbolic",)
        bounds = "corpus fixtures (the 957 tests/*/rule_*_test_input.vhd files copied to /verif/corpus) x a window of 1-2 lines whose letters outside comments each carry a symbolic case bit x configuration in {default, jcl, flipA..flipH, option sweeps flipI0-4, flipJ0-1}; plus layout-variation explorations (engine-forked alternatives at 3 positions of a window: line break, comment + line break, inline delimited comment, deleted blank, nine end-of-line variants). quick: pinned pairs + 60 (30 for C06/C08/C09) fixtures (<=24 paths each) and 12 layout windows (<=160 paths each) chosen by VERIF_SEED mod 3; thorough: every fixture (480 for C06/C08/C09; <=64 paths each) and 200 layout windows (<=160 paths each), fixed selection"
        outside = "token structures not in the corpus; symbolic whitespace widths; comment text"
        min_conclusive_share = 0.5
        exception_props = (prop, "C19")

        def params(self, tier):
            seed = int(os.environ.get("VERIF_SEED", "0") or 0)
            ps = pick_params(prop, tier, seed)
            for q in ps:
                q["_limits"] = {"shard_paths": 160 if q.get("vary") else (24 if tier == "quick" else 64)}
            return ps

        def run(self, eng, p):
            return pipeline(eng, p)

        def describe(self, values, p):
            return l_describe(values, p)

        signature = staticmethod(l_signature)

    L.prop = prop
    L.title = title
    L.__name__ = "L" + prop[1:]
    return register(L)


L01 = make_L("C01", "whole pipeline: every rule application keeps the code tokens (objects, order, text modulo case; literals exact); phase-1 diffs are of a documented kind")
L02 = make_L("C02", "whole pipeline: comments/pragmas/preprocessor lines survive every rule application verbatim (modulo documented normalisation); no comment loses its line break")
L03 = make_L("C03", "whole pipeline: each rule application stays within the effect class of its group (layout only / case only / nothing)")
L04 = make_L("C04", "parse + emit gives back the input lines; every token classified")
L05 = make_L("C05", "token roles are the same for every case variant of the window")
L06 = make_L("C06", "check_rules leaves tokens and token index untouched, is repeatable, and each reporting rule reports the same alone on a fresh parse")
L07 = make_L("C07", "for whitespace/indent/alignment/case rules the changed lines are exactly the reported lines")
L08 = make_L("C08", "the fixed text re-parses to the same tokens/roles/indent levels and a fresh check reports what the fix run reported")
L09 = make_L("C09", "fixing the fixed text again changes nothing")
L10 = make_L("C10", "applying a rule's fix a second time right after the first changes nothing")
L18 = make_L("C18", "token index equals a recomputed index whenever a rule obtains its tokens of interest; every region of interest is the slice it claims to be")
L19 = make_L("C19", "no exception escapes parse, fix or check")


# ---------------------------------------------------------------- C15: process-level state (what a pool worker carries from one file to the next)
import copy
import types


def global_state():
    """every module-level and class-level mutable container (dict / list / set) of the loaded vsg.* modules, deep-copied"""
    out = {}
    for mname, mod in list(sys.modules.items()):
        if mod is None or not (mname == "vsg" or mname.startswith("vsg.")):
            continue
        for k, v in list(vars(mod).items()):
            if k.startswith("_sx_") or k.startswith("__"):
                continue
            if isinstance(v, (dict, list, set)):
                out["%s.%s" % (mname, k)] = _freeze(v)
            elif _is_vsg_instance(v):
                # a module-level object of a class the product defines (a cache, a parameter block ...): its attributes are process state too
                out["%s.%s" % (mname, k)] = _freeze(v)
            elif isinstance(v, type) and getattr(v, "__module__", None) == mname:
                for ak, av in list(vars(v).items()):
                    if ak.startswith("__"):
                        continue
                    if isinstance(av, (dict, list, set)):
                        out["%s.%s.%s" % (mname, k, ak)] = _freeze(av)
    return out


def _is_vsg_instance(v):
    c = type(v)
    m = getattr(c, "__module__", "") or ""
    return (m == "vsg" or m.startswith("vsg.")) and not isinstance(v, (type, types.FunctionType, types.ModuleType)) and hasattr(v, "__dict__")


def _freeze(v, depth=0):
    if depth > 6:
        return "<deep>"
    if depth <= 3 and _is_vsg_instance(v) and not isinstance(v, parser.item):
        return ("obj", type(v).__name__, tuple((k, _freeze(x, depth + 1)) for k, x in sorted(vars(v).items())))
    if isinstance(v, dict):
        return ("dict", tuple((repr(k), _freeze(x, depth + 1)) for k, x in v.items()))
    if isinstance(v, (list, tuple)):
        return (type(v).__name__, tuple(_freeze(x, depth + 1) for x in v))
    if isinstance(v, (set, frozenset)):
        return ("set", tuple(sorted(repr(x) for x in v)))
    if isinstance(v, (str, int, float, bool, type(None), SymStr, core.SymInt, core.SymBool)):
        return v
    if isinstance(v, (type, types.FunctionType, types.ModuleType, types.BuiltinFunctionType)):
        return "<%s %s>" % (type(v).__name__, getattr(v, "__name__", "?"))
    return "<%s>" % type(v).__name__


def state_diff(a, b):
    keys = sorted(set(a) | set(b))
    changed = []
    cl = []
    for k in keys:
        if k not in a or k not in b:
            changed.append(k)
            continue
        r = Eq(a[k], b[k]) if _has_sym(a[k]) or _has_sym(b[k]) else (a[k] == b[k])
        if r is True:
            continue
        if r is False:
            changed.append(k)
        else:
            cl.append((k, r))
    return changed, cl


def _has_sym(v):
    if isinstance(v, (SymStr, core.SymInt, core.SymBool)):
        return True
    if isinstance(v, tuple):
        return any(_has_sym(x) for x in v)
    return False


_WARM = {}
WARM_LINES = ["library ieee;", "  use ieee.std_logic_1164.all;", "", "entity warm is", "  port (", "    a : in    std_logic", "  );", "end entity warm;", "",
              "architecture rtl of warm is", "", "begin", "", "  b <= a;", "", "end architecture rtl;", ""]


def purity(eng, p):
    """one inductive step: processing a file leaves the process-level state of vsg.* as it found it"""
    fixture, window, confname = p["fixture"], p.get("window"), p.get("conf", "default")
    lines = read_fixture(fixture)
    slines = sym_lines(eng, lines, tuple(window) if window else None)
    conf = get_conf2(confname)
    base_roles(fixture)  # warm the harness's own cache outside the measured region
    if not _WARM.get(confname):
        # lazily built caches of the product (built on first use, constant afterwards) are not state in the sense of C15: one complete
        # run on a small file under this configuration comes first, the measured step is a later file of the same process
        _WARM[confname] = True
        o0 = vhdlFile_pkg.vhdlFile(list(WARM_LINES), sFilename="warm.vhd", configuration=conf)
        o0.set_indent_map(conf.dIndent)
        r0 = rule_list.rule_list(o0, conf.severity_list)
        r0.configure(conf)
        r0.fix()
        r0.clear_violations()
        r0.check_rules(bAllPhases=True)
    s0 = global_state()
    oFile = vhdlFile_pkg.vhdlFile(slines, sFilename=fixture, configuration=conf)
    oFile.set_indent_map(conf.dIndent)
    rl = rule_list.rule_list(oFile, conf.severity_list)
    rl.configure(conf)
    rl.fix()
    rl.clear_violations()
    rl.check_rules(bAllPhases=True)
    rl.report_violations("vsg")
    s1 = global_state()
    changed, cl = state_diff(s0, s1)
    clauses = [("C15:process_state_unchanged[%s]" % k, False) for k in changed[:5]]
    clauses += [("C15:process_state_unchanged[%s]" % k, c) for k, c in cl]
    clauses.append(("C15:process_state_compared", len(s0) > 50))
    return clauses


def make_L15():
    class L15(Harness):
        name = "L15"
        prop = "C15"
        parallel_params = True
        per_clause_findings = True
        title = "purity step: parsing, fixing, checking and reporting one file leaves every module-level and class-level mutable container of vsg.* unchanged (so a worker's next file cannot depend on the previous one)"
        functions = ("vsg",)
        stubs = ()
        assumptions = L01.assumptions
        bounds = L01.bounds
        outside = "state kept outside vsg.* (interpreter, libraries); instance state reachable only from live objects"
        min_conclusive_share = 0.5
        exception_props = ("C15", "C19")

        def params(self, tier):
            seed = int(os.environ.get("VERIF_SEED", "0") or 0)
            ps = pick_params("C15", tier, seed)
            for q in ps:
                q["_limits"] = {"shard_paths": 32}
            return ps

        def run(self, eng, p):
            return purity(eng, p)

        def describe(self, values, p):
            return l_describe(values, p)

        signature = staticmethod(l_signature)

    return register(L15)


L15 = make_L15()


# ---------------------------------------------------------------- C05: re-layout (line breaks, comments, extra blanks at existing token gaps)
from vsg import tokens as tokens_mod
from vsg import exceptions as vsg_exceptions


def code_roles(oFile):
    return [type(t).__module__ + "." + type(t).__name__ for t in oFile.lAllObjects if is_code(t)]


_BASE_CODE_ROLES = {}


def base_code_roles(fixture):
    if fixture not in _BASE_CODE_ROLES:
        _BASE_CODE_ROLES[fixture] = code_roles(vhdlFile_pkg.vhdlFile(read_fixture(fixture)))
    return _BASE_CODE_ROLES[fixture]


def line_is_relayoutable(s):
    t = s.strip()
    if not t or t.startswith("--") or t.startswith("#") or "/*" in s or "*/" in s or "vsg_" in s or "`" in s:
        return False
    return True


def explode_parens(line):
    """'x (a, b, c) y' -> ['x (', '      a,', '      b,', '      c', '    ) y'] for the first parenthesised comma list of the line, else None"""
    toks = tokens_mod.create(line)
    if any(t.startswith("--") or t.startswith("/*") for t in toks):
        return None
    depth = 0
    start = None
    for j, t in enumerate(toks):
        if t == "(":
            if depth == 0:
                start = j
            depth += 1
        elif t == ")":
            depth -= 1
            if depth < 0:
                return None
            if depth == 0 and start is not None:
                inner = toks[start + 1:j]
                items, cur, d = [], [], 0
                for u in inner:
                    if u == "(":
                        d += 1
                    elif u == ")":
                        d -= 1
                    if u == "," and d == 0:
                        items.append("".join(cur).strip())
                        cur = []
                    else:
                        cur.append(u)
                items.append("".join(cur).strip())
                if len(items) < 2 or not all(items):
                    start = None
                    continue
                out = ["".join(toks[:start + 1]).rstrip()]
                for k, it in enumerate(items):
                    out.append("      " + it + ("," if k < len(items) - 1 else ""))
                out.append("    )" + "".join(toks[j + 1:]))
                return out
    return None


def vary_layout(eng, lines, window, points, seed):
    """structural neighbourhood of a fixture: at `points` randomly chosen positions of the window lines (whitespace gaps, line
    start, line end) the engine forks over layout alternatives. Returns the new list of lines."""
    rnd = random.Random(seed)
    cands = []
    for i in range(window[0], min(window[1], len(lines) - 1) + 1):
        s_ = lines[i]
        if not line_is_relayoutable(s_):
            continue
        toks = tokens_mod.create(s_)
        comment_at = next((j for j, t in enumerate(toks) if t.startswith("--")), len(toks))
        if toks and toks[0].isspace() and comment_at > 1:
            cands.append((i, "indent", 0))
        for j in range(1, comment_at - 1):
            if toks[j] and toks[j].isspace():
                cands.append((i, "gap", j))
        if comment_at == len(toks):
            cands.append((i, "eol", len(toks)))
    # one more alternative per window: a parenthesised comma list on one line is written one item per line with the closing
    # parenthesis on a line of its own (a common multi-line style that most fixtures only show in their rule's own construct)
    exploded = None
    for i in range(window[0], min(window[1], len(lines) - 1) + 1):
        ex = explode_parens(lines[i]) if line_is_relayoutable(lines[i]) else None
        if ex:
            if eng.choose("explode", 2) == 1:
                exploded = (i, ex)
            break
    if exploded:
        cands = [c for c in cands if c[0] != exploded[0]]
    chosen = set(rnd.sample(cands, min(points, len(cands))))
    out = []
    n = 0
    for i, s_ in enumerate(lines):
        if exploded and i == exploded[0]:
            out.extend(exploded[1])
            continue
        if not any(c[0] == i for c in chosen):
            out.append(s_)
            continue
        toks = tokens_mod.create(s_)
        cur = ""
        after = []
        for j, tk in enumerate(toks):
            if (i, "indent", j) in chosen:
                n += 1
                if eng.choose("indent%d" % n, 2) == 1:
                    continue
                cur += tk
            elif (i, "gap", j) in chosen:
                n += 1
                wordy = lambda t: bool(t) and (t[-1].isalnum() or t[-1] in "_\"'") and True
                can_delete = not (wordy(toks[j - 1]) and (toks[j + 1][:1].isalnum() or toks[j + 1][:1] in "_\"'\\"))
                c = eng.choose("gap%d" % n, 5 if can_delete else 4)
                if c == 0:
                    cur += tk
                elif c == 1:
                    out.append(cur)
                    cur = "      "
                elif c == 2:
                    out.append(cur + " -- relayout")
                    cur = "    "
                elif c == 3:
                    cur += " /* inline */ "  # a delimited comment between the two tokens, same line
                else:
                    pass  # whitespace deleted: the neighbours stay separate tokens
            else:
                cur += tk
        if (i, "eol", len(toks)) in chosen:
            n += 1
            c = eng.choose("eol%d" % n, 9)
            if c == 7:
                cur += "-- abutting"  # no blank between code and comment
            elif c == 8:
                cur += " /* delimited at end of line */"
            if c == 6:
                cur += "   "  # trailing blanks
            elif c == 1:
                cur += "  -- trailing"
            elif c == 2:
                after = ["  -- own line"]
            elif c == 3:
                cur += " -- trailing"
                after = ["-- own line 1", "    -- own line 2"]
            elif c == 4:
                after = ["  -- pragma keep_this"]  # a comment of vendor-pragma shape (classified as pragma.single)
            elif c == 5:
                after = ["  /* delimited */"]
        out.append(cur)
        out.extend(after)
    return out


def relayout(eng, p):
    fixture, window = p["fixture"], p["window"]
    lines = read_fixture(fixture)
    out = []
    ngaps = 0
    maxgaps = p.get("gaps", 5)
    for i, s in enumerate(lines):
        if not (window[0] <= i <= window[1]) or not line_is_relayoutable(s):
            out.append(s)
            continue
        toks = tokens_mod.create(s)
        cur = ""
        comment_started = False
        for j, tk in enumerate(toks):
            if tk.startswith("--"):
                comment_started = True
            if comment_started or not tk or not tk.isspace() or j == 0 or j == len(toks) - 1 or ngaps >= maxgaps:
                cur += tk
                continue
            ngaps += 1
            c = eng.choose("gap%d" % ngaps, 6)
            if c == 0:
                cur += tk
            elif c == 1:
                out.append(cur)
                cur = "      "
            elif c == 2:
                out.append(cur + " -- relayout")
                cur = "    "
            elif c == 4:
                out.append(cur)
                out.append("  -- synopsys keep_this")
                cur = "    "
            elif c == 5:
                out.append(cur)
                out.append("  /* c */")
                cur = "    "
            else:
                cur += tk + "  \t"
        if not comment_started and ngaps < maxgaps:
            ngaps += 1
            c = eng.choose("eol%d" % ngaps, 5)
            if c == 1:
                cur += "  -- trailing"
            elif c == 2:
                out.append(cur)
                cur = "  -- own line"
            elif c == 3:
                out.append(cur)
                cur = "  -- pragma keep_this"
            elif c == 4:
                out.append(cur)
                cur = "  /**/"
        out.append(cur)
    clauses = []
    try:
        o = vhdlFile_pkg.vhdlFile(out)
    except vsg_exceptions.ClassifyError:
        return [("C05:relayout_is_accepted", False)]
    clauses.append(("C05:relayout_is_accepted", True))
    clauses.append(("C05:roles_independent_of_layout", code_roles(o) == base_code_roles(fixture)))
    clauses.append(("C04:relayout_emit_equals_input", o.get_lines()[1:] == out))
    return clauses


def relayout_describe(values, p):
    return {"fixture": p["fixture"], "window": p["window"], "choices": {k: v for k, v in values.items() if k.startswith(("gap", "eol"))},
            "legend": "gap: 0 keep, 1 line break, 2 comment + line break, 3 extra blanks/tab, 4 line break + pragma-shaped comment line, 5 line break + delimited comment line; eol: 0 keep, 1 trailing comment, 2 comment line, 3 pragma-shaped comment line, 4 empty delimited comment"}


def make_L05b():
    class L05b(Harness):
        name = "L05b"
        prop = "C05"
        props = ("C05", "C04")
        parallel_params = True
        per_clause_findings = True
        title = "re-layout: replacing the whitespace at up to 5 token gaps of a window by a line break, a comment plus line break or extra blanks, and adding trailing / own-line comments, leaves every code token's role unchanged and the file accepted"
        functions = ("vsg.tokens", "vsg.vhdlFile", "vsg.parser")
        stubs = ()
        assumptions = ("lines that are comments, preprocessor lines, contain delimited comments or code tags are left alone (their meaning is layout dependent by design)",)
        bounds = "corpus fixtures x a window of 1-2 lines x every assignment of {keep, line break, comment+line break, blanks+tab} to the first 5 whitespace gaps and {keep, trailing comment, comment line} to the line end (structural choices forked by the engine); quick ~8 windows, thorough ~120"
        outside = "re-layouts touching more than 5 gaps at once; removal of existing line breaks"
        min_conclusive_share = 0.5
        exception_props = ("C05", "C19")

        def params(self, tier):
            seed = int(os.environ.get("VERIF_SEED", "0") or 0)
            rnd = random.Random(7000 + seed % NSEEDS)
            n = 8 if tier == "quick" else 120
            out = []
            for f in rnd.sample(ALL_FIXTURES, n):
                cl = [i for i in code_lines(f) if line_is_relayoutable(read_fixture(f)[i])]
                if not cl:
                    continue
                lo = rnd.choice(cl)
                out.append({"fixture": f, "window": [lo, lo + 1], "gaps": 4, "_limits": {"shard_paths": 8000}})
            return out

        def run(self, eng, p):
            return relayout(eng, p)

        def describe(self, values, p):
            return relayout_describe(values, p)

        signature = staticmethod(l_signature)

    return register(L05b)


L05b = make_L05b()


# ---------------------------------------------------------------- C11: code tags through the whole pipeline
_VIOL_BY_LINE = {}


def violations_by_line(fixture):
    """concrete pre-run: {line number: [rule ids reporting there]} under the default configuration, all phases"""
    if fixture not in _VIOL_BY_LINE:
        conf = get_conf2("default")
        o = vhdlFile_pkg.vhdlFile(read_fixture(fixture))
        o.set_indent_map(conf.dIndent)
        rl = rule_list.rule_list(o, conf.severity_list)
        rl.configure(conf)
        rl.check_rules(bAllPhases=True)
        d = {}
        for r in rl.rules:
            if r.fixable:
                for v in r.violations:
                    d.setdefault(int(v.get_line_number()), [])
                    if r.unique_id not in d[int(v.get_line_number())]:
                        d[int(v.get_line_number())].append(r.unique_id)
        _VIOL_BY_LINE[fixture] = d
    return _VIOL_BY_LINE[fixture]


def tagged_pipeline(eng, p):
    fixture, line = p["fixture"], p["line"]  # 0-based line index with at least one fixable violation
    lines = read_fixture(fixture)
    rules_here = violations_by_line(fixture).get(line + 1, [])[:3]
    mode = ["wrap_bare", "next_line", "wrap_rule"][eng.choose("tagmode", 3)]
    rid = rules_here[eng.choose("rule", len(rules_here))] if (mode != "wrap_bare" and rules_here) else None
    if mode != "wrap_bare" and rid is None:
        return True
    hi = min(len(lines) - 1, line + eng.choose("span", 2))
    indent = "  "
    if mode == "wrap_bare":
        new = lines[:line] + [indent + "-- vsg_off"] + lines[line:hi + 1] + [indent + "-- vsg_on"] + lines[hi + 1:]
    elif mode == "next_line":
        new = lines[:line] + [indent + "-- vsg_disable_next_line " + rid] + lines[line:]
    else:
        new = lines[:line] + [indent + "-- vsg_off " + rid] + lines[line:hi + 1] + [indent + "-- vsg_on " + rid] + lines[hi + 1:]
    try:
        oFile = vhdlFile_pkg.vhdlFile(list(new))
    except vsg_exceptions.ClassifyError:
        return True  # the tag comment lands where VSG does not accept a comment line: outside the quantifier
    conf = get_conf2(p.get("conf", "default"))
    oFile.set_indent_map(conf.dIndent)
    rl = rule_list.rule_list(oFile, conf.severity_list)
    rl.configure(conf)
    mon = Monitor(oFile, rl, want=("C11",))
    rl.fix()
    clauses = list(mon.clauses)
    # after the fix run: what is reported for a tagged rule lies outside its tagged tokens (checked against the tags given at parse time)
    rl.clear_violations()
    rl.check_rules(bAllPhases=True)
    for r in rl.rules:
        for v in r.violations:
            try:
                toks = v.oTokens.get_tokens()
            except Exception:
                continue
            bad = any((r.unique_id in mon.tags0.get(id(t), ()) or "all" in mon.tags0.get(id(t), ())) for t in toks if not is_layout(t))
            if bad:
                clauses.append(("C11:violation_reported_on_tagged_token@" + r.unique_id, False))
    clauses.append(("C11:tags_present", any(mon.tags0.values())))
    return clauses


def tagged_describe(values, p):
    return {"fixture": p["fixture"], "line": p["line"] + 1, "tagmode": ["wrap_bare", "next_line", "wrap_rule"][values.get("tagmode", 0)], "rule_index": values.get("rule"), "span": values.get("span"),
            "rules_reporting_on_line": violations_by_line(p["fixture"]).get(p["line"] + 1, [])[:3]}


def make_L11():
    class L11(Harness):
        name = "L11"
        prop = "C11"
        parallel_params = True
        per_clause_findings = True
        title = "code tags through the whole product: a rule never changes (nor, after the fix run, reports on) a token that carried its tag - or the bare tag - when the file was read"
        functions = ("vsg.vhdlFile", "vsg.vhdlFile.code_tags", "vsg.rule_list", "vsg.rule", "vsg.rules", "vsg.parser")
        stubs = ()
        assumptions = ("tag comments are inserted on their own line before/after corpus lines that have a fixable violation",)
        bounds = "corpus fixtures x a line with a fixable violation x {bare vsg_off/vsg_on around 1-2 lines, vsg_disable_next_line <rule>, vsg_off/on <rule>} with <rule> one of up to 3 rules reporting on that line (engine-forked); quick 40 lines, thorough 400"
        outside = "tags at other positions; the comparison with a neutral-comment twin for violations partly inside a tagged region"
        min_conclusive_share = 0.5
        exception_props = ("C11", "C19")

        def params(self, tier):
            seed = int(os.environ.get("VERIF_SEED", "0") or 0) % NSEEDS
            rnd = random.Random(11000 + seed)
            n = 40 if tier == "quick" else 400
            out = []
            for f in rnd.sample(ALL_FIXTURES, min(len(ALL_FIXTURES), n * 2)):
                vb = violations_by_line(f)
                cand = sorted(k for k in vb if k >= 2)
                if not cand:
                    continue
                out.append({"fixture": f, "line": rnd.choice(cand) - 1, "_limits": {"shard_paths": 40}})
                if len(out) >= n:
                    break
            return out

        def run(self, eng, p):
            return tagged_pipeline(eng, p)

        def describe(self, values, p):
            return tagged_describe(values, p)

        signature = staticmethod(l_signature)

    return register(L11)


L11 = make_L11()


# ---------------------------------------------------------------- C15/C20: a file's result does not depend on the files processed before it (real apply_rules, shared config object)
import shutil
import tempfile

import vsg.apply_rules as AR_real


class SeqCLA(CLA):
    def __init__(self, **k):
        super().__init__()
        self.fix = False
        self.backup = False
        self.fix_phase = 7
        self.skip_phase = []
        self.all_phases = False
        self.output_format = "vsg"
        self.json = "x.json"
        self.quality_report = None
        self.jobs = 1
        for a, b in k.items():
            setattr(self, a, b)


def run_sequence(names, texts, fix, fix_only, all_phases):
    """process the files in order in this process, the way __main__ does with --jobs 1: one config object for the whole run"""
    d = tempfile.mkdtemp(prefix="seq", dir=os.path.join(os.path.dirname(CORPUS), ".scratch"))
    try:
        paths = []
        for n, t in zip(names, texts):
            pth = os.path.join(d, n)
            with open(pth, "w", encoding="utf-8") as f:
                f.write("\n".join(t) + "\n")
            paths.append(pth)
        cla = SeqCLA(fix=fix, all_phases=all_phases)
        cla.filename = list(paths)
        conf = config.New(cla)
        conf.dFixOnly = fix_only
        out = {}
        for i, pth in enumerate(paths):
            st, tc, dj, so, se, stop = AR_real.apply_rules(cla, conf, (i, pth))
            out[os.path.basename(pth)] = {
                "status": bool(st), "stdout": (so or "").replace(d + os.sep, ""), "stderr": (se or "").replace(d + os.sep, ""),
                "json": [(v["rule"], v["linenumber"], v["solution"]) for v in dj.get("violations", [])],
                "text": open(pth, encoding="utf-8").read(),
            }
        return out
    finally:
        shutil.rmtree(d, ignore_errors=True)


def sequence(eng, p):
    a, b = p["a"], p["b"]
    ta, tb = read_fixture(a), read_fixture(b)
    fix = eng.bool("fix")
    ap = eng.bool("all_phases")
    vb = violations_by_line(b)
    rules_b = sorted(set(r for rs in vb.values() for r in rs))[:2]
    fo_mode = ["none", "all_for_rules_of_b", "first_reported_line"][eng.choose("fix_only", 3)] if fix else "none"
    if fo_mode == "none" or not rules_b:
        fo = lambda: None
    elif fo_mode == "all_for_rules_of_b":
        fo = lambda: {"fix": {"rule": {r: ["all"] for r in rules_b}}}
    else:
        line = sorted(k for k, rs in vb.items() if rules_b[0] in rs)[0]
        fo = lambda: {"fix": {"rule": {rules_b[0]: [line]}}}
    os.makedirs(os.path.join(os.path.dirname(CORPUS), ".scratch"), exist_ok=True)
    alone = run_sequence(["b.vhd"], [tb], fix, fo(), ap)["b.vhd"]
    after = run_sequence(["a.vhd", "b.vhd"], [ta, tb], fix, fo(), ap)["b.vhd"]
    clauses = []
    for k in ("status", "stdout", "stderr", "json", "text"):
        clauses.append(("C15:result_of_file_independent_of_predecessor[%s]" % k, alone[k] == after[k]))
    if fo_mode != "none":
        clauses.append(("C20:selection_applies_to_every_file", alone["text"] == after["text"]))
    return clauses


def make_L15b():
    class L15b(Harness):
        name = "L15b"
        prop = "C15"
        props = ("C15", "C20")
        parallel_params = True
        per_clause_findings = False
        title = "two files through the real config.New + apply_rules in one process (one shared configuration object, as --jobs 1 does): report, JSON entry, exit contribution and fixed text of the second file equal those of processing it alone"
        functions = ("vsg.apply_rules", "vsg.config", "vsg.rule_list", "vsg.rule", "vsg.vhdlFile")
        stubs = ("files are written to a scratch directory under /verif/.scratch; no process pool (jobs = 1 path of __main__)",)
        assumptions = ()
        bounds = "pairs of corpus fixtures (quick 12, thorough 120) x --fix x --all_phases x --fix_only in {absent, 'all' for two rules that fire on the second file, one reported line} (engine-forked)"
        outside = "three or more files; real worker pools; --stdin"
        min_conclusive_share = 0.5
        exception_props = ("C15", "C19")

        def params(self, tier):
            seed = int(os.environ.get("VERIF_SEED", "0") or 0) % NSEEDS
            rnd = random.Random(15500 + seed)
            n = 12 if tier == "quick" else 120
            return [{"a": rnd.choice(ALL_FIXTURES), "b": rnd.choice(ALL_FIXTURES), "_limits": {"shard_paths": 20}} for _ in range(n)]

        def run(self, eng, p):
            return sequence(eng, p)

        def describe(self, values, p):
            return {"first_file": p["a"], "second_file": p["b"], "fix": values.get("fix"), "all_phases": values.get("all_phases"), "fix_only_mode": values.get("fix_only")}

        def signature(self, values, p, detail):
            if detail.get("kind") == "exception":
                return l_signature(values, p, detail)
            return "vc:" + ",".join(sorted(set(f.split("[")[0] for f in detail.get("failed", []))))

    return register(L15b)


L15b = make_L15b()


# ---------------------------------------------------------------- C20: --fix_only through the real apply_rules on corpus files
def run_one(text, fix_only, conf_rules=None):
    d = tempfile.mkdtemp(prefix="fo", dir=os.path.join(os.path.dirname(CORPUS), ".scratch"))
    try:
        pth = os.path.join(d, "f.vhd")
        with open(pth, "w", encoding="utf-8") as f:
            f.write("\n".join(text) + "\n")
        cla = SeqCLA(fix=True)
        cla.filename = [pth]
        conf = config.New(cla)
        if conf_rules is not None:
            conf.dConfig = dict(conf.dConfig)
            conf.dConfig["rule"] = conf_rules
        conf.dFixOnly = fix_only
        st = AR_real.apply_rules(cla, conf, (0, pth))
        return open(pth, encoding="utf-8").read().split("\n")[:-1], bool(st[0])
    finally:
        shutil.rmtree(d, ignore_errors=True)


_ALL_RULE_IDS = []


def all_rule_ids():
    if not _ALL_RULE_IDS:
        o = vhdlFile_pkg.vhdlFile([""])
        _ALL_RULE_IDS.extend(r.unique_id for r in rule_list.rule_list(o, get_conf2("default").severity_list).rules if not rule_list.is_rule_deprecated(r))
    return _ALL_RULE_IDS


def fixonly_pipeline(eng, p):
    fixture = p["fixture"]
    text = read_fixture(fixture)
    os.makedirs(os.path.join(os.path.dirname(CORPUS), ".scratch"), exist_ok=True)
    vb = violations_by_line(fixture)
    rules = sorted(set(r for rs in vb.values() for r in rs))
    later = [r for r in rules if r.split("_")[0] not in ("whitespace",)]  # candidates for a one-rule selection
    if not rules:
        return True
    mode = ["all_all", "nothing", "one_rule_plus_empty_entry", "only_that_rule_enabled"][eng.choose("mode", 4)]
    clauses = []
    if mode == "all_all":
        plain, _ = run_one(text, None)
        sel, _ = run_one(text, {"fix": {"rule": {r: ["all"] for r in all_rule_ids()}}})
        clauses.append(("C20:all_rules_all_equals_plain_fix", plain == sel))
    elif mode == "nothing":
        sel, _ = run_one(text, {"fix": {"rule": {}}})
        clauses.append(("C20:empty_selection_leaves_file_untouched", [ln.rstrip() for ln in sel] == [ln.rstrip() for ln in text]))
    else:
        rid = later[eng.choose("rule", min(3, len(later)))] if later else rules[0]
        other = "whitespace_001" if rid != "whitespace_001" else "whitespace_002"
        if mode == "one_rule_plus_empty_entry":
            a, _ = run_one(text, {"fix": {"rule": {rid: ["all"]}}})
            b, _ = run_one(text, {"fix": {"rule": {rid: ["all"], other: []}}})
            clauses.append(("C20:entry_with_no_lines_changes_nothing", a == b))
        else:
            only = {"global": {"disable": True}, rid: {"disable": False}}
            plain, _ = run_one(text, None, only)
            sel, _ = run_one(text, {"fix": {"rule": {r: ["all"] for r in all_rule_ids()}}}, only)
            clauses.append(("C20:all_rules_all_equals_plain_fix_when_one_rule_enabled", plain == sel))
    return clauses


def make_L20():
    class L20(Harness):
        name = "L20"
        prop = "C20"
        parallel_params = True
        title = "--fix_only through the real config.New + apply_rules on corpus files: all-rules-all == plain --fix (also when only one rule is enabled), an empty selection leaves the file untouched, an entry that lists no lines changes nothing"
        functions = ("vsg.apply_rules", "vsg.rule_list", "vsg.rule", "vsg.config", "vsg.vhdlFile")
        stubs = L15b.stubs
        assumptions = ()
        bounds = "corpus fixtures (quick 16, thorough 160) x {all/all, empty selection, one reporting rule + an entry without lines, all/all with only that rule enabled} (engine-forked; the rule is one of up to 3 rules reporting on the fixture)"
        outside = "selections of specific lines through the real pipeline (K20a covers the line filter)"
        min_conclusive_share = 0.5
        exception_props = ("C20", "C19")

        def params(self, tier):
            seed = int(os.environ.get("VERIF_SEED", "0") or 0) % NSEEDS
            rnd = random.Random(20200 + seed)
            n = 16 if tier == "quick" else 160
            return [{"fixture": f, "_limits": {"shard_paths": 20}} for f in rnd.sample(ALL_FIXTURES, n)]

        def run(self, eng, p):
            return fixonly_pipeline(eng, p)

        def describe(self, values, p):
            return {"fixture": p["fixture"], "mode": ["all_all", "nothing", "one_rule_plus_empty_entry", "only_that_rule_enabled"][values.get("mode", 0)], "rule_index": values.get("rule")}

        def signature(self, values, p, detail):
            if detail.get("kind") == "exception":
                return l_signature(values, p, detail)
            return "vc:" + ",".join(sorted(detail.get("failed", []))) + "|" + os.path.basename(p["fixture"])

    return register(L20)


L20 = make_L20()


# ---------------------------------------------------------------- C17: the emitted configuration reproduces the run on VHDL input
import io as _io
import sys as _sys2

import vsg.__main__  # noqa: F401,E402

_MAINMOD = _sys2.modules["vsg.__main__"]
_EMITTED = {}


class _ExitNow(Exception):
    pass


def emitted_conf(confname):
    """configuration `confname` written by the real --output_configuration (json.dump) and read back by the real reader (yaml), no style"""
    if confname in _EMITTED:
        return _EMITTED[confname]
    conf = get_conf2(confname)
    files = {}

    class Sink(_io.StringIO):
        def __init__(self, name):
            super().__init__()
            self.name_ = name

        def close(self):
            files[self.name_] = self.getvalue()
            super().close()

        def __exit__(self, *a):
            self.close()
            return False

    cla = CLA()
    cla.output_configuration = "oc.json"
    cla.filename = []
    saved = (_MAINMOD.__dict__.get("open"), _MAINMOD.sys)

    class S:
        @staticmethod
        def exit(code=0):
            raise _ExitNow()

    _MAINMOD.open = lambda n, mode="r", *a, **k: Sink(n)
    _MAINMOD.sys = S
    try:
        try:
            _MAINMOD.generate_output_configuration(cla, conf)
        except _ExitNow:
            pass
    finally:
        if saved[0] is None:
            _MAINMOD.__dict__.pop("open", None)
        else:
            _MAINMOD.open = saved[0]
        _MAINMOD.sys = saved[1]
    real_open = config.__dict__.get("open")
    config.open = lambda n, *a, **k: _io.StringIO(files[n]) if n in files else open(n, *a, **k)
    try:
        c2 = config.New(CLA(configuration=["oc.json"]))
    finally:
        if real_open is None:
            config.__dict__.pop("open", None)
        else:
            config.open = real_open
    _EMITTED[confname] = c2
    return c2


def run_conf(slines, conf):
    o = vhdlFile_pkg.vhdlFile(list(slines), configuration=conf)
    o.set_indent_map(conf.dIndent)
    rl = rule_list.rule_list(o, conf.severity_list)
    rl.configure(conf)
    rl.check_rules(bAllPhases=True)
    before = sorted_v(violations_of(rl))
    rl.clear_violations()
    rl.fix()
    text = o.get_lines()[1:]
    rl.clear_violations()
    rl.check_rules(bAllPhases=True)
    return before, text, sorted_v(violations_of(rl))


def emitted_pipeline(eng, p):
    fixture, window, confname = p["fixture"], p.get("window"), p.get("conf", "default")
    lines = read_fixture(fixture)
    slines = sym_lines(eng, lines, tuple(window) if window else None)
    c1 = get_conf2(confname)
    c2 = emitted_conf(confname)
    v1, t1, w1 = run_conf(slines, c1)
    v2, t2, w2 = run_conf(slines, c2)
    return [("C17:same_violations_under_emitted_configuration", list_eq(v1, v2)), ("C17:same_fixed_text_under_emitted_configuration", Eq(list(t1), list(t2))),
            ("C17:same_report_after_fix_under_emitted_configuration", list_eq(w1, w2))]


def make_L17():
    class L17(Harness):
        name = "L17"
        prop = "C17"
        parallel_params = True
        per_clause_findings = True
        title = "the configuration written by the real --output_configuration and read back with no style gives the same violations, the same fixed text and the same report after fixing on corpus files"
        functions = ("vsg.__main__", "vsg.config", "vsg.rule_list", "vsg.rule", "vsg.rules", "vsg.vhdlFile")
        stubs = ("open() in vsg.__main__ / vsg.config captured in memory; sys.exit intercepted",)
        assumptions = L01.assumptions
        bounds = "corpus fixtures (quick 24, thorough 240, plus the pragma fixtures under a user-ordered pragma pattern section) x configuration in {default, jcl, indent_only, flipA..flipG} x a one-line case-symbolic window"
        outside = "configurations outside the eight listed; pragma pattern sections other than the default"
        min_conclusive_share = 0.5
        exception_props = ("C17", "C19")

        def params(self, tier):
            seed = int(os.environ.get("VERIF_SEED", "0") or 0) % NSEEDS
            rnd = random.Random(17100 + seed)
            n = 24 if tier == "quick" else 240
            confs = ["default", "jcl", "indent_only", "flipA", "flipB", "flipC", "flipD", "flipE", "flipF", "flipG"]
            out = [{"prop": "C17", "fixture": f, "window": None, "conf": "flipG", "_limits": {"shard_paths": 16}} for f in ALL_FIXTURES if "/pragma__" in f][:6]
            for k, f in enumerate(rnd.sample(ALL_FIXTURES, n)):
                cl = code_lines(f)
                lo = rnd.choice(cl) if cl else None
                out.append({"prop": "C17", "fixture": f, "window": [lo, lo] if lo is not None else None, "conf": confs[k % len(confs)], "_limits": {"shard_paths": 16}})
            return out

        def run(self, eng, p):
            return emitted_pipeline(eng, p)

        def describe(self, values, p):
            return l_describe(values, p)

        signature = staticmethod(l_signature)

    return register(L17)


L17 = make_L17()
