"""sx.instrument - import hook: loads vsg.* from /repo's current source through a small AST rewrite
so that proxy values survive operations whose receiver is a builtin (str.join, `in`, dict lookup,
f-strings, re.Pattern methods, str()/int()).  Every rewrite is the identity on concrete values."""
import ast
import hashlib
import importlib.abc
import importlib.machinery
import importlib.util
import marshal
import os
import re as _re
import sys
from types import ModuleType as _ModuleType

from . import core
from .core import SymBool, SymInt, SymStr, Unsupported, is_sym

REPO = os.environ.get("VSG_REPO", "/repo")
CACHE = os.path.join(os.path.dirname(os.path.dirname(os.path.abspath(__file__))), ".cache")
LOADED = {}  # module name -> (path, sha1 of source)
_STR_METHODS_WITH_SYM_ARGS = {"startswith", "endswith", "find", "rfind", "index", "count", "split", "replace", "strip", "lstrip", "rstrip", "partition", "ljust", "rjust"}


def sx_call(recv, name, *a, **k):
    eng = core._CUR
    if eng is not None and eng.symbolic:
        eng.calls += 1
        if eng.calls > 20_000_000:
            raise core.Budget("instrumented calls > 2e7")
    tr = type(recv)
    if tr is str:
        if name == "join":
            return core.sx_join(recv, *a)
        if a and (is_sym(a[0]) or (type(a[0]) is tuple and any(is_sym(x) for x in a[0])) or any(isinstance(x, SymInt) for x in a)):
            if name == "format" or name not in _STR_METHODS_WITH_SYM_ARGS:
                raise Unsupported("str.%s with symbolic argument" % name)
            return getattr(core.lift(recv), name)(*a, **k)
        if name == "format" and (any(is_sym(x) for x in a) or any(is_sym(x) for x in k.values())):
            raise Unsupported("str.format with symbolic argument")
    elif tr is _re.Pattern:
        if a and is_sym(a[0]):
            from . import symre
            return symre.dispatch(recv, name, *a, **k)
    elif tr is list:
        if name == "index" and a and isinstance(a[0], (SymStr, SymInt)):
            for i, x in enumerate(recv):
                if x == a[0]:
                    return i
            raise ValueError("%r is not in list" % (a[0],))
        if name == "count" and a and isinstance(a[0], (SymStr, SymInt)):
            return sum(1 for x in recv if x == a[0])
        if name == "remove" and a and isinstance(a[0], (SymStr, SymInt)):
            for i, x in enumerate(recv):
                if x == a[0]:
                    del recv[i]
                    return None
            raise ValueError("list.remove(x): x not in list")
    elif tr is dict:
        if a and isinstance(a[0], (SymStr, SymInt)) and name in ("get", "pop", "setdefault"):
            for kk in recv:
                if type(kk) is type(a[0]) or isinstance(kk, (str, int)):
                    if a[0] == kk:
                        return getattr(recv, name)(kk, *a[1:])
            if name == "get":
                return a[1] if len(a) > 1 else None
            if name == "pop":
                if len(a) > 1:
                    return a[1]
                raise KeyError(a[0])
            # setdefault with a key equal to no existing key: insert under its (forked) concrete value
            ck = a[0].concretize() if isinstance(a[0], SymStr) else int(a[0])
            return recv.setdefault(ck, *a[1:])
    elif tr is _ModuleType and recv is not _re and not recv.__name__.startswith("vsg") and (a or k):
        # foreign (possibly C) function: use a model if there is one, otherwise realise symbolic arguments by forking
        if any(isinstance(x, (SymStr, SymInt, SymBool)) for x in a) or any(isinstance(x, (SymStr, SymInt, SymBool)) for x in k.values()):
            fn = getattr(recv, name)
            model = FOREIGN_MODELS.get((recv.__name__, name))
            if model is not None:
                return model(*a, **k)
            a = tuple(_realise(x) for x in a)
            k = {kk: _realise(v) for kk, v in k.items()}
            return fn(*a, **k)
    elif recv is _re and a:
        if name in ("match", "fullmatch", "search") and len(a) > 1 and is_sym(a[1]):
            from . import symre
            return symre.dispatch(_re.compile(a[0], *a[2:]), name, a[1])
        if name in ("compile",) and is_sym(a[0]):
            raise Unsupported("re.compile of symbolic pattern")
        if name in ("sub", "split", "findall", "finditer") and any(is_sym(x) for x in a):
            raise Unsupported("re.%s on symbolic string" % name)
    return getattr(recv, name)(*a, **k)


def _realise(x):
    if isinstance(x, SymStr):
        return x.concretize()
    if isinstance(x, SymInt):
        return int(x)
    if isinstance(x, SymBool):
        return bool(x)
    return x


FOREIGN_MODELS = {
    ("stat", "S_IMODE"): lambda m: m % 4096,
    ("os.path", "basename"): None,
}
FOREIGN_MODELS = {k: v for k, v in FOREIGN_MODELS.items() if v is not None}


def sx_in(x, y):
    ty = type(y)
    if ty is str:
        if is_sym(x):
            return core.lift(y).__contains__(x)
        return x in y
    if isinstance(x, (SymStr, SymInt, SymBool)) or ty is SymStr:
        if ty is SymStr:
            return y.__contains__(x)
        if isinstance(y, (dict, set, frozenset)) or ty.__name__ in ("dict_keys", "dict_values"):
            for k in y:
                if isinstance(k, (str, int, SymStr, SymInt)) and x == k:
                    return True
            return False
    return x in y


def sx_getitem(d, k):
    if isinstance(k, (SymStr, SymInt)) and type(d) is dict:
        for kk in d:
            if isinstance(kk, (str, int, SymStr, SymInt)) and k == kk:
                return d[kk]
        raise KeyError(k)
    return d[k]


def sx_fmt(v, conv, spec):
    if isinstance(v, (SymStr, SymInt)):
        if spec:
            raise Unsupported("format spec on symbolic value")
        return sx_str(v)
    if is_sym(spec):
        raise Unsupported("symbolic format spec")
    if conv == 115:
        v = sx_str(v)
    elif conv == 114:
        v = repr(v)
    elif conv == 97:
        v = ascii(v)
    return format(v, spec)


def sx_joinparts(parts):
    return core.sx_join("", parts)


def sx_str(*a, **k):
    if len(a) == 1 and not k:
        x = a[0]
        if is_sym(x):
            return x
        if isinstance(x, SymInt):
            t = x.t
            if x < 0:
                raise Unsupported("str() of negative symbolic int")
            if x < 10:
                return SymStr([t + 48])
            if x < 100:
                return SymStr([t / 10 + 48, t % 10 + 48])
            if x < 1000:
                return SymStr([t / 100 + 48, (t / 10) % 10 + 48, t % 10 + 48])
            raise Unsupported("str() of symbolic int >= 1000")
        if isinstance(x, SymBool):
            return "True" if x else "False"
    return str(*a, **k)


def sx_int(*a, **k):
    if len(a) == 1 and not k:
        x = a[0]
        if isinstance(x, SymInt):
            return x
        if isinstance(x, SymBool):
            return SymInt(core.z3.If(x.c, 1, 0))
        if is_sym(x):
            s = x.strip()
            if not is_sym(s):
                return int(s)
            if not s.isdigit():
                if s.cps and core.wrapb(core.Or(core._eqc(s.cps[0], 45), core._eqc(s.cps[0], 43))):
                    raise Unsupported("int() of signed symbolic string")
                raise ValueError("invalid literal for int() with base 10: %r" % s.guess())
            if not s.isascii():
                raise Unsupported("int() of non-ascii digits")
            tot = 0
            for c in s.cps:
                tot = tot * 10 + (c - 48)
            return SymInt(tot)
    return int(*a, **k)


def sx_isinstance(x, t):
    if isinstance(x, (SymStr, SymInt, SymBool)):
        ts = t if isinstance(t, tuple) else (t,)
        if isinstance(x, SymStr):
            return str in ts or object in ts
        if isinstance(x, SymBool):
            return bool in ts or int in ts or object in ts
        return int in ts or object in ts
    return isinstance(x, t)


def sx_reraise(e):
    """guard put at the top of bare `except:` handlers: engine control exceptions must propagate"""
    if isinstance(e, core.SxControl):
        raise e


HELPERS = {
    "_sx_call_": sx_call,
    "_sx_in_": sx_in,
    "_sx_getitem_": sx_getitem,
    "_sx_fmt_": sx_fmt,
    "_sx_joinparts_": sx_joinparts,
    "_sx_str_": sx_str,
    "_sx_int_": sx_int,
    "_sx_isinstance_": sx_isinstance,
    "_sx_reraise_": sx_reraise,
}
_PRIM = {"str", "int", "bool"}


class T(ast.NodeTransformer):
    def visit_Call(self, node):
        self.generic_visit(node)
        f = node.func
        plain = not any(isinstance(x, ast.Starred) for x in node.args) and not any(k.arg is None for k in node.keywords)
        if isinstance(f, ast.Attribute) and plain:
            if isinstance(f.value, ast.Call) and isinstance(f.value.func, ast.Name) and f.value.func.id == "super":
                return node
            return ast.copy_location(
                ast.Call(func=ast.Name(id="_sx_call_", ctx=ast.Load()), args=[f.value, ast.Constant(f.attr)] + node.args, keywords=node.keywords), node
            )
        if isinstance(f, ast.Name):
            if f.id == "str" and plain:
                return ast.copy_location(ast.Call(func=ast.Name(id="_sx_str_", ctx=ast.Load()), args=node.args, keywords=node.keywords), node)
            if f.id == "int" and plain:
                return ast.copy_location(ast.Call(func=ast.Name(id="_sx_int_", ctx=ast.Load()), args=node.args, keywords=node.keywords), node)
            if f.id == "isinstance" and len(node.args) == 2:
                t = node.args[1]
                names = [t] if isinstance(t, ast.Name) else (t.elts if isinstance(t, ast.Tuple) else [])
                if any(isinstance(n, ast.Name) and n.id in _PRIM for n in names):
                    return ast.copy_location(ast.Call(func=ast.Name(id="_sx_isinstance_", ctx=ast.Load()), args=node.args, keywords=[]), node)
        return node

    def visit_Compare(self, node):
        self.generic_visit(node)
        if len(node.ops) == 1 and isinstance(node.ops[0], (ast.In, ast.NotIn)):
            call = ast.Call(func=ast.Name(id="_sx_in_", ctx=ast.Load()), args=[node.left, node.comparators[0]], keywords=[])
            if isinstance(node.ops[0], ast.NotIn):
                call = ast.UnaryOp(op=ast.Not(), operand=call)
            return ast.copy_location(call, node)
        return node

    def visit_JoinedStr(self, node):
        self.generic_visit(node)
        parts = []
        for v in node.values:
            if isinstance(v, ast.Constant):
                parts.append(v)
            else:
                spec = v.format_spec if v.format_spec is not None else ast.Constant("")
                parts.append(ast.Call(func=ast.Name(id="_sx_fmt_", ctx=ast.Load()), args=[v.value, ast.Constant(v.conversion), spec], keywords=[]))
        return ast.copy_location(ast.Call(func=ast.Name(id="_sx_joinparts_", ctx=ast.Load()), args=[ast.List(elts=parts, ctx=ast.Load())], keywords=[]), node)

    def visit_Subscript(self, node):
        self.generic_visit(node)
        if isinstance(node.ctx, ast.Load) and not isinstance(node.slice, ast.Slice):
            return ast.copy_location(ast.Call(func=ast.Name(id="_sx_getitem_", ctx=ast.Load()), args=[node.value, node.slice], keywords=[]), node)
        return node

    def visit_ExceptHandler(self, node):
        self.generic_visit(node)
        catches_base = node.type is None or (isinstance(node.type, ast.Name) and node.type.id == "BaseException")
        if catches_base:
            name = node.name or "_sx_exc_"
            guard = ast.Expr(ast.Call(func=ast.Name(id="_sx_reraise_", ctx=ast.Load()), args=[ast.Name(id=name, ctx=ast.Load())], keywords=[]))
            node.type = ast.Name(id="BaseException", ctx=ast.Load())
            node.name = name
            node.body = [guard] + node.body
        return node


def transform_source(src, path):
    tree = T().visit(ast.parse(src, path))
    ast.fix_missing_locations(tree)
    return compile(tree, path, "exec")


_SELF_HASH = None


def _self_hash():
    global _SELF_HASH
    if _SELF_HASH is None:
        _SELF_HASH = hashlib.sha1(open(__file__, "rb").read()).hexdigest()[:12]
    return _SELF_HASH


def load_code(path):
    """compile the *current* source of `path`; a content-addressed cache only avoids re-parsing identical text"""
    raw = open(path, "rb").read()
    h = hashlib.sha1(raw).hexdigest()
    key = os.path.join(CACHE, "%s-%s-%s-%s.bin" % (h, hashlib.sha1(path.encode()).hexdigest()[:10], _self_hash(), sys.version_info[1]))
    try:
        with open(key, "rb") as f:
            return marshal.loads(f.read()), h
    except Exception:
        pass
    code = transform_source(raw.decode("utf-8"), path)
    try:
        os.makedirs(CACHE, exist_ok=True)
        tmp = key + ".%d" % os.getpid()
        with open(tmp, "wb") as f:
            f.write(marshal.dumps(code))
        os.replace(tmp, key)
    except Exception:
        pass
    return code, h


class Loader(importlib.abc.Loader):
    def __init__(self, path):
        self.path = path

    def create_module(self, spec):
        return None

    def exec_module(self, module):
        code, h = load_code(self.path)
        LOADED[module.__name__] = (self.path, h)
        module.__dict__.update(HELPERS)
        exec(code, module.__dict__)


class Finder(importlib.abc.MetaPathFinder):
    def find_spec(self, name, path, target=None):
        if name != "vsg" and not name.startswith("vsg."):
            return None
        if name == "vsg":
            search = [REPO]
        else:
            search = path
        spec = importlib.machinery.PathFinder.find_spec(name, search)
        if spec is None or not spec.origin or not spec.origin.endswith(".py"):
            return spec
        is_pkg = spec.submodule_search_locations is not None
        return importlib.util.spec_from_file_location(
            name, spec.origin, loader=Loader(spec.origin), submodule_search_locations=(list(spec.submodule_search_locations) if is_pkg else None)
        )


_INSTALLED = False


def install():
    global _INSTALLED
    if _INSTALLED:
        return
    for m in list(sys.modules):
        if m == "vsg" or m.startswith("vsg."):
            raise RuntimeError("vsg imported before sx.instrument.install()")
    sys.meta_path.insert(0, Finder())
    _INSTALLED = True


def functions_encoded(prefixes):
    """qualified module names (+ source hash) loaded through the hook that match the given prefixes"""
    out = []
    for name, (path, h) in sorted(LOADED.items()):
        if any(name == p or name.startswith(p + ".") for p in prefixes):
            out.append("%s@%s" % (name, h[:10]))
    return out
