"""sx.replay - run one counterexample in concrete mode against the plain (un-instrumented) vsg of /repo."""
import json
import os
import sys
import warnings

warnings.simplefilter("ignore")
sys.path.insert(0, os.path.dirname(os.path.dirname(os.path.abspath(__file__))))


def main(path):
    doc = json.load(open(path))
    if os.environ.get("SX_REPLAY_INSTRUMENTED") == "1":
        from sx import instrument
        instrument.install()
    import harnesses  # noqa: F401  (plain import: no hook installed -> the real modules as shipped)
    from sx import runner

    h = runner.HARNESSES[doc["harness"]]
    outcome, detail = runner.concrete_run(h, doc["params"], doc["values"])
    kind = doc["detail"].get("kind")
    if kind == "vc":
        rep = outcome == "violated"
    elif kind == "exception":
        rep = outcome == "exception" and detail.get("type") == doc["detail"].get("type")
    else:
        rep = False
    res = {"reproduced": rep, "outcome": outcome, "detail": detail, "expected": kind}
    print("input:", json.dumps(doc.get("input"), default=repr)[:2000])
    print("outcome on un-instrumented code:", outcome, detail)
    print("REPLAY-RESULT " + json.dumps(res, default=repr))
    return 0


if __name__ == "__main__":
    sys.exit(main(sys.argv[1]))
