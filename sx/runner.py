"""sx.runner - drives harnesses: sharded exploration, verdicts, replay, known findings, evidence."""
import hashlib
import json
import multiprocessing
import os
import subprocess
import sys
import time
import traceback

from . import core

ROOT = os.path.dirname(os.path.dirname(os.path.abspath(__file__)))
REPO_PREFIX = os.environ.get("VSG_REPO", "/repo").rstrip("/") + "/"
HARNESSES = {}  # name -> instance


def register(cls):
    HARNESSES[cls.name] = cls()
    return cls


class Harness:
    name = "?"
    prop = "?"
    title = ""
    functions = ()  # vsg module prefixes whose real source is executed
    stubs = ()  # what is replaced by a model, in words
    assumptions = ()
    bounds = ""
    outside = ""
    allowed_exceptions = ()  # exception classes the property allows the code under check to raise
    exception_props = None  # properties charged with an unexpected exception (default: the harness's own and C19)
    min_conclusive_share = 0.9

    def params(self, tier):
        return [{}]

    def run(self, eng, p):
        raise NotImplementedError

    def describe(self, values, p):
        return values

    def signature(self, values, p, detail):
        return detail.get("kind", "vc")

    def shard_target(self, p):
        return 96


def _innermost(tb):
    """file of the innermost frame, looking through the import hook's helpers and the proxies (they act on behalf of the caller)"""
    for f in reversed(tb):
        if f.filename.endswith(("/sx/instrument.py", "/sx/core.py", "/sx/symre.py")):
            continue
        return f.filename
    return ""


def _jsonable(x):
    try:
        json.dumps(x)
        return x
    except Exception:
        return repr(x)


def _explore_shard(args):
    """worker: explore the subtree below `prefix`; with `depth` set, stop at that many decisions and return the frontier"""
    hname, p, prefix, depth, limits = args
    t_start = time.time()
    if multiprocessing.current_process().name != "MainProcess" and not os.environ.get("SX_DEBUG"):
        sys.stdout = open(os.devnull, "w")  # the code under check prints diagnostics; workers report through return values
    h = HARNESSES[hname]
    eng = core.Engine(**limits.get("engine", {}))
    eng.dump_vcs = 2 if os.environ.get("SX_CROSSCHECK") else 0
    max_cex = limits.get("max_cex", 40)
    deadline = limits.get("deadline")
    max_paths = limits.get("shard_paths", 250)
    if prefix:
        eng.load_prefix(prefix)
    eng.shard_depth = depth
    st = {
        "paths": 0, "reached": 0, "trivial": 0, "discharged": 0, "violated": 0, "unknown": 0, "aborted": 0, "unsupported": 0, "budget": 0,
        "exceptions": 0, "cut": 0, "timeout": 0, "nontrivial": 0,
    }
    cexs = []
    sig_count = {}

    def add_cex(values, detail):
        try:
            sig = h.signature(values, p, detail)
        except Exception as e:  # pragma: no cover
            sig = "signature-error:%r" % (e,)
        n = sig_count.get(sig, 0)
        sig_count[sig] = n + 1
        if n < 3:
            cexs.append({"values": values, "detail": detail, "sig": sig})

    frontier = []
    samples = []
    unsupported = {}
    witness = None
    while True:
        if deadline is not None and time.time() > deadline:
            st["timeout"] += 1
            break
        eng.start_path()
        outcome = None
        info = None
        try:
            phi = h.run(eng, p)
            named = None
            if isinstance(phi, list):  # list of (clause name, formula): the property is their conjunction
                named = phi
                phi = core.And([c for _, c in named])
                info = {"clauses": len(named)}
            elif isinstance(phi, tuple):
                phi, info = phi
            outcome = "end"
        except core.PathAbort:
            st["aborted"] += 1
        except core.ShardCut:
            st["cut"] += 1
            frontier.append(eng.prefix_values())
        except core.Unsupported as e:
            st["unsupported"] += 1
            k = str(e)[:120]
            unsupported[k] = unsupported.get(k, 0) + 1
        except core.Budget as e:
            st["budget"] += 1
            m = eng.current_model()
            if m is not None:
                add_cex(eng.decode(m), {"kind": "budget", "msg": str(e)})
        except Exception as e:  # escaped from the code under check
            if isinstance(e, tuple(h.allowed_exceptions)):
                st["reached"] += 1
                st["trivial"] += 1
            else:
                st["exceptions"] += 1
                m = eng.current_model()
                if m is None:  # the path condition itself is infeasible: not a behaviour of the code
                    st["exceptions"] -= 1
                    st["aborted"] += 1
                    st["paths"] += 1
                    if not eng._backtrack():
                        break
                    continue
                tb = traceback.extract_tb(e.__traceback__)
                where = ["%s:%d:%s" % (f.filename.replace(REPO_PREFIX, ""), f.lineno, f.name) for f in tb if f.filename.startswith(REPO_PREFIX)][-3:]
                inner = _innermost(tb)
                if not where or not (inner.startswith(REPO_PREFIX) or "/lib/python" in inner or inner.startswith("<")):
                    # raised by harness code itself (innermost frame is neither the code under check nor a library it called)
                    st["exceptions"] -= 1
                    st["harness_exc"] = st.get("harness_exc", 0) + 1
                    k = "HARNESS BUG %s: %s @ %s" % (type(e).__name__, str(e)[:100], ["%s:%d" % (f.filename.rsplit("/", 1)[-1], f.lineno) for f in tb][-2:])
                    unsupported[k] = unsupported.get(k, 0) + 1
                elif m is not None:
                    add_cex(eng.decode(m), {"kind": "exception", "type": type(e).__name__, "msg": str(e)[:200], "where": where})
        if outcome == "end":
            st["reached"] += 1
            if any(e["kind"] in ("b", "c", "p") for e in eng.stack):
                st["nontrivial"] += 1
            if witness is None:
                m = eng.current_model()
                if m is not None:
                    witness = eng.decode(m)
            verdict, m = eng.check_vc(phi)
            if verdict == "trivial":
                st["trivial"] += 1
            elif verdict == "unsat":
                st["discharged"] += 1
                if len(samples) < 2:
                    f = core.f_of(phi)
                    samples.append({"decisions": len(eng.stack), "vc": str(f)[:300], "info": _jsonable(info)})
            elif verdict == "sat":
                st["violated"] += 1
                if True:
                    failed = []
                    if named:
                        import z3 as _z3
                        for nm, c in named:
                            c = core.f_of(c)
                            ok = c if isinstance(c, bool) else _z3.is_true(m.eval(c, model_completion=True))
                            if not ok and nm not in failed:
                                failed.append(nm)
                    add_cex(eng.decode(m), {"kind": "vc", "info": _jsonable(info), "failed": failed})
            else:
                st["unknown"] += 1
        st["paths"] += 1
        if max_paths is not None and st["paths"] >= max_paths and depth is None:
            frontier.extend(eng.split_open())
            break
        if not eng._backtrack():
            break
    st["unknown"] += eng.unknowns
    return {
        "st": st, "cexs": cexs, "sig_count": sig_count, "frontier": frontier, "dumped": eng.dumped, "samples": samples, "unsupported": unsupported, "witness": witness,
        "wall": time.time() - t_start, "queries": eng.nq, "solver_s": eng.solver_s, "concretizations": eng.concretizations,
        "fork_sites": sorted(eng.fork_sites.items(), key=lambda kv: -kv[1])[:8],
    }


def _merge(tot, r):
    for k, v in r["st"].items():
        tot["st"][k] = tot["st"].get(k, 0) + v
    for c in r["cexs"]:
        if sum(1 for x in tot["cexs"] if x["sig"] == c["sig"]) < 4:
            tot["cexs"].append(c)
    if r.get("dumped") and len(tot.setdefault("dumped", [])) < 12:
        tot["dumped"].extend(r["dumped"][: 12 - len(tot["dumped"])])
    for k, v in r.get("sig_count", {}).items():
        tot["sig_count"][k] = tot["sig_count"].get(k, 0) + v
    tot["samples"].extend(r["samples"][: max(0, 3 - len(tot["samples"]))])
    for k, v in r["unsupported"].items():
        tot["unsupported"][k] = tot["unsupported"].get(k, 0) + v
    if tot["witness"] is None:
        tot["witness"] = r["witness"]
    tot["queries"] += r["queries"]
    tot["solver_s"] += r["solver_s"]
    tot["concretizations"] += r["concretizations"]
    fs = dict(tot["fork_sites"])
    for k, v in r["fork_sites"]:
        fs[tuple(k) if isinstance(k, list) else k] = fs.get(k, 0) + v
    tot["fork_sites"] = sorted(fs.items(), key=lambda kv: -kv[1])[:8]


_POOL = None


def pool(jobs=None):
    global _POOL
    if _POOL is None:
        ctx = multiprocessing.get_context("fork")
        _POOL = ctx.Pool(jobs or min(16, os.cpu_count() or 4))
    return _POOL


def explore(h, p, limits=None, jobs=None):
    """full exploration of harness h with parameters p: iterative-deepening split into shards, then a process pool"""
    limits = dict(limits or {})
    t0 = time.time()
    tot = {"st": {}, "cexs": [], "sig_count": {}, "samples": [], "unsupported": {}, "witness": None, "queries": 0, "solver_s": 0.0, "concretizations": 0, "fork_sites": []}
    pl = pool(jobs)
    target = h.shard_target(p)
    depth = 8
    frontier = [[]]
    shards = 0
    # widen the frontier until there are enough work items (completed paths are accounted as they are met)
    while frontier and len(frontier) < target and depth <= 64:
        nxt = []
        for r in pl.imap_unordered(_explore_shard, [(h.name, p, pre, depth, limits) for pre in frontier]):
            cut = r["st"].pop("cut", 0)
            r["st"]["paths"] -= cut
            _merge(tot, r)
            nxt.extend(r["frontier"])
            shards += 1
        frontier = nxt
        depth += 6
    while frontier:
        nxt = []
        for r in pl.imap_unordered(_explore_shard, [(h.name, p, pre, None, limits) for pre in frontier], chunksize=1):
            _merge(tot, r)
            nxt.extend(r["frontier"])
            shards += 1
        frontier = nxt
    tot["wall_s"] = time.time() - t0
    tot["shards"] = shards
    return tot


def crosscheck(dumps, timeout=60):
    """re-decide dumped VCs (each must be unsat) with the z3 4.8.12 and cvc5 binaries; -> dict of counts"""
    import tempfile

    res = {"vcs": len(dumps), "z3_binary_unsat": 0, "cvc5_unsat": 0, "disagreements": [], "errors": 0}
    for i, text in enumerate(dumps):
        with tempfile.NamedTemporaryFile("w", suffix=".smt2", delete=False, dir=ROOT) as f:
            f.write(text)
            path = f.name
        try:
            for name, cmd in (("z3_binary_unsat", ["/usr/bin/z3", "-T:%d" % timeout, path]), ("cvc5_unsat", ["cvc5", "--tlimit=%d" % (timeout * 1000), path])):
                try:
                    out = subprocess.run(cmd, capture_output=True, text=True, timeout=timeout + 10).stdout.strip().splitlines()
                except Exception as e:  # pragma: no cover
                    out = ["error %r" % (e,)]
                first = out[0] if out else "no output"
                if any("(error" in ln for ln in out):
                    res["errors"] += 1
                elif first == "unsat":
                    res[name] += 1
                elif first == "sat":
                    res["disagreements"].append("%s says sat on VC %d" % (cmd[0], i))
                else:
                    res["errors"] += 1
        finally:
            os.unlink(path)
    return res


def explore_many(h, plist, jobs=None):
    """harnesses whose parameter sets are many small independent explorations: one worker task per parameter set"""
    t0 = time.time()
    pl = pool(jobs)
    tasks = []
    for p in plist:
        p = dict(p)
        limits = dict(p.pop("_limits", {}))
        tasks.append((h.name, p, [], None, limits))
    tot = {"st": {}, "cexs": [], "sig_count": {}, "samples": [], "unsupported": {}, "witness": None, "queries": 0, "solver_s": 0.0, "concretizations": 0, "fork_sites": []}
    per = []
    for args, r in zip(tasks, pl.imap(_explore_shard, tasks, chunksize=1)):
        for c in r["cexs"]:
            c["params"] = args[1]
        if r["frontier"]:
            r["st"]["budget"] = r["st"].get("budget", 0) + len(r["frontier"])  # path cap hit: the rest of this exploration is inconclusive
        _merge(tot, r)
        per.append({"params": args[1], "paths": r["st"]["paths"], "reached": r["st"]["reached"], "violated": r["st"]["violated"], "exceptions": r["st"]["exceptions"], "cap_hit": len(r["frontier"]), "wall_s": round(r["wall"], 2)})
    tot["wall_s"] = time.time() - t0
    tot["shards"] = len(tasks)
    tot["per_params"] = per
    return tot


# --------------------------------------------------------------------------
# replay of a counterexample against the un-instrumented code, in a fresh interpreter


def replay_file_path(prop, hname, p, values):
    key = hashlib.sha1(json.dumps([hname, p, values], sort_keys=True, default=repr).encode()).hexdigest()[:12]
    d = os.path.join(ROOT, "replays", prop)
    os.makedirs(d, exist_ok=True)
    return os.path.join(d, "%s-%s.json" % (hname, key))


def write_replay(prop, h, p, cex):
    path = replay_file_path(prop, h.name, p, cex["values"])
    doc = {
        "property": prop,
        "harness": h.name,
        "params": p,
        "values": cex["values"],
        "detail": cex["detail"],
        "input": _jsonable(h.describe(cex["values"], p)),
        "how": "./check %s --replay %s   (runs the harness in concrete mode on the un-instrumented vsg from /repo)" % (prop, path),
    }
    with open(path, "w") as f:
        json.dump(doc, f, indent=1, sort_keys=True, default=repr)
    return path


def run_replay_subprocess(path, timeout=300):
    """-> dict(reproduced: bool, outcome: str)"""
    env = dict(os.environ)
    env["PYTHONHASHSEED"] = "0"
    env["PYTHONPATH"] = os.environ.get("VSG_REPO", "/repo") + os.pathsep + ROOT
    env.pop("COVERAGE_PROCESS_START", None)
    try:
        r = subprocess.run([sys.executable, "-m", "sx.replay", path], cwd=ROOT, env=env, capture_output=True, text=True, timeout=timeout)
    except subprocess.TimeoutExpired:
        return {"reproduced": None, "outcome": "replay timed out after %ss" % timeout, "timeout": True}
    out = r.stdout.strip().splitlines()
    for line in reversed(out):
        if line.startswith("REPLAY-RESULT "):
            return json.loads(line[len("REPLAY-RESULT "):])
    return {"reproduced": None, "outcome": "replay process failed: rc=%s %s" % (r.returncode, (r.stderr or r.stdout)[-400:])}


def concrete_run(h, p, values):
    """run harness h in concrete mode; -> (outcome, detail)  outcome in holds|violated|exception|abort"""
    eng = core.ConcreteEngine(values)
    eng.start_path()
    try:
        phi = h.run(eng, p)
        if isinstance(phi, list):
            phi = core.And([c for _, c in phi])
        elif isinstance(phi, tuple):
            phi = phi[0]
    except core.PathAbort:
        return "abort", "precondition not met by these values"
    except core.SxControl as e:
        return "abort", "control: %r" % (e,)
    except Exception as e:
        if isinstance(e, tuple(h.allowed_exceptions)):
            return "holds", "allowed exception %s" % type(e).__name__
        tb = traceback.extract_tb(e.__traceback__)
        where = ["%s:%d:%s" % (f.filename.replace(REPO_PREFIX, ""), f.lineno, f.name) for f in tb if f.filename.startswith(REPO_PREFIX)][-3:]
        inner = _innermost(tb)
        if not where or not (inner.startswith(REPO_PREFIX) or "/lib/python" in inner or inner.startswith("<")):
            return "abort", "exception inside harness code: %s: %s @ %s" % (type(e).__name__, str(e)[:100], ["%s:%d" % (f.filename.rsplit("/", 1)[-1], f.lineno) for f in tb][-2:])
        return "exception", {"type": type(e).__name__, "msg": str(e)[:200], "where": where}
    phi = core.f_of(phi)
    if core.is_z3(phi):
        phi = core._simp(phi)
    if phi is True:
        return "holds", ""
    if phi is False:
        return "violated", ""
    return "abort", "formula did not reduce to a constant in concrete mode: %s" % str(phi)[:200]
