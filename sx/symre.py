"""sx.symre - re.Pattern.match/fullmatch/search on a fixed-length symbolic string, as a z3 formula.

Supported subset (what vsg's own patterns use): literals, character classes and negated classes, ranges, \\d \\w \\s (and
negations), '.', ^ $, greedy/lazy repeats (* + ? {m,n}), groups, alternation.  Anything else raises Unsupported.
Only the truth value of the match is modelled (vsg never inspects groups of these matches on symbolic text)."""
import re

try:
    import re._parser as sre_parse
    import re._constants as sre_c
except ImportError:  # pragma: no cover
    import sre_parse
    import sre_constants as sre_c

from . import core
from .core import And, Or, Not, Unsupported

_CACHE = {}


class SymMatch:
    """stand-in for a match object whose existence was decided symbolically"""

    def __bool__(self):
        return True

    def __getattr__(self, name):
        raise Unsupported("re.Match.%s on a symbolic match" % name)


def _char_pred(c, item, flags):
    op, av = item
    if op is sre_c.LITERAL:
        if flags & re.IGNORECASE:
            ch = chr(av)
            return Or(core._eqc(c, ord(ch.lower())), core._eqc(c, ord(ch.upper())))
        return core._eqc(c, av)
    if op is sre_c.NOT_LITERAL:
        return Not(core._eqc(c, av))
    if op is sre_c.RANGE:
        lo, hi = av
        if isinstance(c, int):
            return lo <= c <= hi
        cs = core._cases(c)
        if cs:
            cond, a, b = cs
            ra, rb = lo <= a <= hi, lo <= b <= hi
            return ra if ra == rb else (cond if ra else core.z3.Not(cond))
        return core.z3.And(c >= lo, c <= hi)
    if op is sre_c.CATEGORY:
        if av is sre_c.CATEGORY_DIGIT:
            return core._pred(c, "isdecimal")
        if av is sre_c.CATEGORY_NOT_DIGIT:
            return Not(core._pred(c, "isdecimal"))
        if av is sre_c.CATEGORY_SPACE:
            return core._pred(c, "isspace")
        if av is sre_c.CATEGORY_NOT_SPACE:
            return Not(core._pred(c, "isspace"))
        if av is sre_c.CATEGORY_WORD:
            return Or(core._pred(c, "isalnum"), core._eqc(c, 95))
        if av is sre_c.CATEGORY_NOT_WORD:
            return Not(Or(core._pred(c, "isalnum"), core._eqc(c, 95)))
        raise Unsupported("regex category %s" % av)
    if op is sre_c.IN:
        neg = False
        parts = []
        for it in av:
            if it[0] is sre_c.NEGATE:
                neg = True
            else:
                parts.append(_char_pred(c, it, flags))
        r = Or(parts)
        return Not(r) if neg else r
    if op is sre_c.ANY:
        return Not(core._eqc(c, 10)) if not (flags & re.DOTALL) else True
    raise Unsupported("regex item %s" % (op,))


def _merge(d, pos, f):
    if f is False:
        return
    old = d.get(pos)
    d[pos] = f if old is None else Or(old, f)


def _run(nodes, start, cps, flags):
    """start: {position: formula}; returns {position: formula} after matching `nodes`"""
    n = len(cps)
    cur = start
    for op, av in nodes:
        nxt = {}
        if op in (sre_c.LITERAL, sre_c.NOT_LITERAL, sre_c.IN, sre_c.ANY, sre_c.RANGE, sre_c.CATEGORY):
            for pos, f in cur.items():
                if pos < n:
                    _merge(nxt, pos + 1, And(f, _char_pred(cps[pos], (op, av), flags)))
        elif op is sre_c.AT:
            if av in (sre_c.AT_BEGINNING, sre_c.AT_BEGINNING_STRING):
                if 0 in cur:
                    nxt[0] = cur[0]
            elif av in (sre_c.AT_END, sre_c.AT_END_STRING):
                # '$' also matches before a trailing newline; symbolic lines never contain newlines
                if n in cur:
                    nxt[n] = cur[n]
            else:
                raise Unsupported("regex anchor %s" % av)
        elif op in (sre_c.MAX_REPEAT, sre_c.MIN_REPEAT):
            lo, hi, sub = av
            acc = {}
            step = cur
            k = 0
            while True:
                if k >= lo:
                    for pos, f in step.items():
                        _merge(acc, pos, f)
                if (hi is not sre_c.MAXREPEAT and k >= hi) or k > n or not step:
                    break
                new = _run(sub, step, cps, flags)
                # an iteration that consumes nothing cannot reach new positions
                step = {p: f for p, f in new.items()}
                k += 1
            nxt = acc
        elif op is sre_c.SUBPATTERN:
            nxt = _run(av[3], cur, cps, flags | (av[1] or 0))
        elif op is sre_c.BRANCH:
            for alt in av[1]:
                for pos, f in _run(alt, cur, cps, flags).items():
                    _merge(nxt, pos, f)
        elif op is sre_c.ASSERT_NOT:
            direction, sub = av
            if direction != 1:
                raise Unsupported("regex look-behind")
            for pos, f in cur.items():
                inner = _run(sub, {pos: True}, cps, flags)
                _merge(nxt, pos, And(f, Not(Or(list(inner.values())))))
        elif op is sre_c.ASSERT:
            direction, sub = av
            if direction != 1:
                raise Unsupported("regex look-behind")
            for pos, f in cur.items():
                inner = _run(sub, {pos: True}, cps, flags)
                _merge(nxt, pos, And(f, Or(list(inner.values()))))
        else:
            raise Unsupported("regex construct %s" % (op,))
        cur = nxt
        if not cur:
            return {}
    return cur


def formula(pattern, mode, s):
    """truth of pattern.<mode>(s) for a SymStr/str s, as a formula"""
    key = (pattern.pattern, pattern.flags)
    tree = _CACHE.get(key)
    if tree is None:
        tree = _CACHE[key] = sre_parse.parse(pattern.pattern, pattern.flags)
    cps = core._cps(s)
    n = len(cps)
    flags = pattern.flags
    if flags & re.MULTILINE:
        raise Unsupported("re.MULTILINE on symbolic text")
    if mode == "search":
        start = {i: True for i in range(n + 1)}
    else:
        start = {0: True}
    end = _run(list(tree), start, cps, flags)
    if mode == "fullmatch":
        return end.get(n, False)
    return Or(list(end.values()))


def dispatch(pattern, name, s, *a, **k):
    if a or k:
        raise Unsupported("re.%s with pos/endpos on symbolic text" % name)
    if name not in ("match", "fullmatch", "search"):
        raise Unsupported("re.Pattern.%s on symbolic text" % name)
    f = formula(pattern, name, s)
    if core.wrapb(f):
        return SymMatch()
    return None


# ---------------------------------------------------------------------------------------------------------------------
# counting semantics: in how many distinct ways can the backtracking matcher consume a string?  (used for the
# "no exponential backtracking" clause of C19: a repeat whose body* can consume some w in >= 2 ways lets w^k be consumed
# in 2^k ways, all of which re.Pattern.match tries before it reports a failure.)

def _ite(pred, a):
    pred = core.f_of(pred)
    if pred is True:
        return a
    if pred is False:
        return 0
    if isinstance(a, int) and a == 0:
        return 0
    return core.z3.If(pred, a, 0)


def _add(d, pos, v):
    if isinstance(v, int) and v == 0:
        return
    old = d.get(pos)
    d[pos] = v if old is None else old + v


def _count(nodes, start, cps, flags):
    """start: {position: number of ways to be here}; returns the same after `nodes` (ways = distinct matcher paths)"""
    n = len(cps)
    cur = start
    for op, av in nodes:
        nxt = {}
        if op in (sre_c.LITERAL, sre_c.NOT_LITERAL, sre_c.IN, sre_c.ANY, sre_c.RANGE, sre_c.CATEGORY):
            for pos, v in cur.items():
                if pos < n:
                    _add(nxt, pos + 1, _ite(_char_pred(cps[pos], (op, av), flags), v))
        elif op is sre_c.AT:
            if av in (sre_c.AT_BEGINNING, sre_c.AT_BEGINNING_STRING):
                if 0 in cur:
                    nxt[0] = cur[0]
            elif av in (sre_c.AT_END, sre_c.AT_END_STRING):
                if n in cur:
                    nxt[n] = cur[n]
            else:
                raise Unsupported("regex anchor %s" % av)
        elif op in (sre_c.MAX_REPEAT, sre_c.MIN_REPEAT):
            lo, hi, sub = av
            acc = {}
            step = cur
            k = 0
            while True:
                if k >= lo:
                    for pos, v in step.items():
                        _add(acc, pos, v)
                if (hi is not sre_c.MAXREPEAT and k >= hi) or k > n or not step:
                    break
                new = {}
                for pos, v in step.items():
                    # an iteration must consume at least one character (the engine refuses empty iterations)
                    for q, w in _count(sub, {pos: v}, cps, flags).items():
                        if q > pos:
                            _add(new, q, w)
                step = new
                k += 1
            nxt = acc
        elif op is sre_c.SUBPATTERN:
            nxt = _count(av[3], cur, cps, flags | (av[1] or 0))
        elif op is sre_c.BRANCH:
            for alt in av[1]:
                for pos, v in _count(alt, cur, cps, flags).items():
                    _add(nxt, pos, v)
        elif op in (sre_c.ASSERT_NOT, sre_c.ASSERT):
            direction, sub = av
            if direction != 1:
                raise Unsupported("regex look-behind")
            for pos, v in cur.items():
                inner = Or(list(_run(sub, {pos: True}, cps, flags).values()))
                _add(nxt, pos, _ite(Not(inner) if op is sre_c.ASSERT_NOT else inner, v))
        else:
            raise Unsupported("regex construct %s" % (op,))
        cur = nxt
        if not cur:
            return {}
    return cur


def unbounded_repeats(pattern):
    """every repeat node with no upper bound, in document order: [(path, body nodes)]"""
    tree = sre_parse.parse(pattern.pattern, pattern.flags)
    out = []

    def walk(nodes):
        for op, av in nodes:
            if op in (sre_c.MAX_REPEAT, sre_c.MIN_REPEAT):
                lo, hi, sub = av
                if hi is sre_c.MAXREPEAT:
                    out.append(list(sub))
                walk(sub)
            elif op is sre_c.SUBPATTERN:
                walk(av[3])
            elif op is sre_c.BRANCH:
                for alt in av[1]:
                    walk(alt)
            elif op in (sre_c.ASSERT, sre_c.ASSERT_NOT):
                walk(av[1])

    walk(list(tree))
    return out


def ways_star(body, s, flags=0):
    """number of distinct ways `(?:body)*` consumes the whole of s (a SymStr or str) - int or z3 Int term"""
    cps = core._cps(s)
    star = [(sre_c.MAX_REPEAT, (0, sre_c.MAXREPEAT, body))]
    return _count(star, {0: 1}, cps, flags).get(len(cps), 0)
