"""sx.symre - re.Pattern.match/fullmatch/search on a fixed-length symbolic string, as a z3 formula.

Supported subset (what vsg's own patterns use): literals, character classes and negated classes, ranges, \\d \\w \\s (and
negations), '.', ^ $, greedy/lazy repeats (* + ? {m,n}), groups, alternation.  Anything else raises Unsupported.
Only the truth value of the match is modelled (vsg never inspects groups of these matches on symbolic text)."""
import re

try:
    import re._parser as sre_parse
    import re._constants as sre_c
except ImportError:  # pragma: no cover
    import sre_parse
    import sre_constants as sre_c

from . import core
from .core import And, Or, Not, Unsupported

_CACHE = {}


class SymMatch:
    """stand-in for a match object whose existence was decided symbolically"""

    def __bool__(self):
        return True

    def __getattr__(self, name):
        raise Unsupported("re.Match.%s on a symbolic match" % name)


def _char_pred(c, item, flags):
    op, av = item
    if op is sre_c.LITERAL:
        if flags & re.IGNORECASE:
            ch = chr(av)
            return Or(core._eqc(c, ord(ch.lower())), core._eqc(c, ord(ch.upper())))
        return core._eqc(c, av)
    if op is sre_c.NOT_LITERAL:
        return Not(core._eqc(c, av))
    if op is sre_c.RANGE:
        lo, hi = av
        if isinstance(c, int):
            return lo <= c <= hi
        cs = core._cases(c)
        if cs:
            cond, a, b = cs
            ra, rb = lo <= a <= hi, lo <= b <= hi
            return ra if ra == rb else (cond if ra else core.z3.Not(cond))
        return core.z3.And(c >= lo, c <= hi)
    if op is sre_c.CATEGORY:
        if av is sre_c.CATEGORY_DIGIT:
            return core._pred(c, "isdecimal")
        if av is sre_c.CATEGORY_NOT_DIGIT:
            return Not(core._pred(c, "isdecimal"))
        if av is sre_c.CATEGORY_SPACE:
            return core._pred(c, "isspace")
        if av is sre_c.CATEGORY_NOT_SPACE:
            return Not(core._pred(c, "isspace"))
        if av is sre_c.CATEGORY_WORD:
            return Or(core._pred(c, "isalnum"), core._eqc(c, 95))
        if av is sre_c.CATEGORY_NOT_WORD:
            return Not(Or(core._pred(c, "isalnum"), core._eqc(c, 95)))
        raise Unsupported("regex category %s" % av)
    if op is sre_c.IN:
        neg = False
        parts = []
        for it in av:
            if it[0] is sre_c.NEGATE:
                neg = True
            else:
                parts.append(_char_pred(c, it, flags))
        r = Or(parts)
        return Not(r) if neg else r
    if op is sre_c.ANY:
        return Not(core._eqc(c, 10)) if not (flags & re.DOTALL) else True
    raise Unsupported("regex item %s" % (op,))


def _merge(d, pos, f):
    if f is False:
        return
    old = d.get(pos)
    d[pos] = f if old is None else Or(old, f)


def _run(nodes, start, cps, flags):
    """start: {position: formula}; returns {position: formula} after matching `nodes`"""
    n = len(cps)
    cur = start
    for op, av in nodes:
        nxt = {}
        if op in (sre_c.LITERAL, sre_c.NOT_LITERAL, sre_c.IN, sre_c.ANY, sre_c.RANGE, sre_c.CATEGORY):
            for pos, f in cur.items():
                if pos < n:
                    _merge(nxt, pos + 1, And(f, _char_pred(cps[pos], (op, av), flags)))
        elif op is sre_c.AT:
            if av in (sre_c.AT_BEGINNING, sre_c.AT_BEGINNING_STRING):
                if 0 in cur:
                    nxt[0] = cur[0]
            elif av in (sre_c.AT_END, sre_c.AT_END_STRING):
                # '$' also matches before a trailing newline; symbolic lines never contain newlines
                if n in cur:
                    nxt[n] = cur[n]
            else:
                raise Unsupported("regex anchor %s" % av)
        elif op in (sre_c.MAX_REPEAT, sre_c.MIN_REPEAT):
            lo, hi, sub = av
            acc = {}
            step = cur
            k = 0
            while True:
                if k >= lo:
                    for pos, f in step.items():
                        _merge(acc, pos, f)
                if (hi is not sre_c.MAXREPEAT and k >= hi) or k > n or not step:
                    break
                new = _run(sub, step, cps, flags)
                # an iteration that consumes nothing cannot reach new positions
                step = {p: f for p, f in new.items()}
                k += 1
            nxt = acc
        elif op is sre_c.SUBPATTERN:
            nxt = _run(av[3], cur, cps, flags | (av[1] or 0))
        elif op is sre_c.BRANCH:
            for alt in av[1]:
                for pos, f in _run(alt, cur, cps, flags).items():
                    _merge(nxt, pos, f)
        elif op is sre_c.ASSERT_NOT:
            direction, sub = av
            if direction != 1:
                raise Unsupported("regex look-behind")
            for pos, f in cur.items():
                inner = _run(sub, {pos: True}, cps, flags)
                _merge(nxt, pos, And(f, Not(Or(list(inner.values())))))
        elif op is sre_c.ASSERT:
            direction, sub = av
            if direction != 1:
                raise Unsupported("regex look-behind")
            for pos, f in cur.items():
                inner = _run(sub, {pos: True}, cps, flags)
                _merge(nxt, pos, And(f, Or(list(inner.values()))))
        else:
            raise Unsupported("regex construct %s" % (op,))
        cur = nxt
        if not cur:
            return {}
    return cur


def formula(pattern, mode, s):
    """truth of pattern.<mode>(s) for a SymStr/str s, as a formula"""
    key = (pattern.pattern, pattern.flags)
    tree = _CACHE.get(key)
    if tree is None:
        tree = _CACHE[key] = sre_parse.parse(pattern.pattern, pattern.flags)
    cps = core._cps(s)
    n = len(cps)
    flags = pattern.flags
    if flags & re.MULTILINE:
        raise Unsupported("re.MULTILINE on symbolic text")
    if mode == "search":
        start = {i: True for i in range(n + 1)}
    else:
        start = {0: True}
    end = _run(list(tree), start, cps, flags)
    if mode == "fullmatch":
        return end.get(n, False)
    return Or(list(end.values()))


def dispatch(pattern, name, s, *a, **k):
    if a or k:
        raise Unsupported("re.%s with pos/endpos on symbolic text" % name)
    if name not in ("match", "fullmatch", "search"):
        raise Unsupported("re.Pattern.%s on symbolic text" % name)
    f = formula(pattern, name, s)
    if core.wrapb(f):
        return SymMatch()
    return None
