"""sx.main - entry point behind /verif/check."""
import argparse
import json
import os
import sys
import time
import warnings

warnings.simplefilter("ignore")

ROOT = os.path.dirname(os.path.dirname(os.path.abspath(__file__)))
EXIT_OK, EXIT_VIOLATION, EXIT_HARNESS = 0, 1, 3


def load_known():
    p = os.path.join(ROOT, "known_findings.json")
    if not os.path.exists(p):
        return []
    return json.load(open(p)).get("findings", [])


def main(argv=None):
    ap = argparse.ArgumentParser()
    ap.add_argument("prop")
    ap.add_argument("--tier", default=os.environ.get("VERIF_TIER", "quick"), choices=["quick", "thorough"])
    ap.add_argument("--replay")
    ap.add_argument("--jobs", type=int, default=None)
    ap.add_argument("--only", default=None, help="comma separated harness names")
    ap.add_argument("--no-evidence", action="store_true")
    args = ap.parse_args(argv)
    seed = int(os.environ.get("VERIF_SEED", "0") or 0)
    if args.tier == "thorough":
        # the thorough selection (every fixture, 200 layout windows, every rule) is fixed: it does not rotate with VERIF_SEED, so what it
        # explores on the unchanged tree is exactly what was run and triaged when known_findings.json was committed
        os.environ["VERIF_SEED"] = "0"
        seed = 0
        os.environ.setdefault("SX_CROSSCHECK", "1")  # thorough: a sample of discharged VCs is re-decided by two other solver binaries

    from . import runner

    if args.replay:
        res = runner.run_replay_subprocess(args.replay)
        print(json.dumps(res, indent=1, default=repr))
        doc = json.load(open(args.replay))
        if res.get("reproduced"):
            print("VIOLATION property=%s replay=%s" % (doc["property"], args.replay))
            return EXIT_VIOLATION
        return EXIT_OK

    t0 = time.time()
    from . import instrument

    instrument.install()
    import harnesses
    from . import selftest

    prop = args.prop
    plan = harnesses.PLAN.get(prop)
    if not plan:
        print("no harness registered for", prop)
        return EXIT_HARNESS
    names = [n for n in plan if not args.only or n in args.only.split(",")]
    pl = runner.pool(args.jobs)  # fork the workers before this process touches z3

    st_ok, st_msg = pl.apply(selftest.run, (seed,))
    if not st_ok:
        print("engine self-test FAILED:", st_msg)
        return EXIT_HARNESS
    print("engine self-test ok:", st_msg)

    known = [k for k in load_known() if k.get("property") == prop and k.get("status", "known") == "known"]
    per_h = []
    findings = {}  # signature -> dict
    harness_errors = []
    for hn in names:
        h = runner.HARNESSES[hn]
        plist = h.params(args.tier)
        if getattr(h, "parallel_params", False):
            work = [({"explorations": len(plist)}, plist)]
        else:
            work = [(p, None) for p in plist]
        for p, many in work:
            limits = dict(p.pop("_limits", {})) if "_limits" in p else {}
            capped = bool(limits) or (many is not None and any("_limits" in q for q in many))
            th = time.time()
            if many is not None:
                res = runner.explore_many(h, many, jobs=args.jobs)
            else:
                res = runner.explore(h, p, limits=limits, jobs=args.jobs)
            st = res["st"]
            paths = max(1, st.get("paths", 0))
            # a per-exploration path cap declared by the harness (_limits) is part of its stated bound: truncated explorations are counted in
            # the evidence (budget_exhausted) but do not make the run inconclusive; solver 'unknown', unsupported constructs and deadlines do
            inconcl = st.get("unknown", 0) + st.get("unsupported", 0) + (0 if capped else st.get("budget", 0)) + st.get("timeout", 0)
            share = 1.0 - inconcl / float(paths + st.get("timeout", 0))
            row = {
                "harness": hn, "params": p, "title": h.title, "paths": st.get("paths", 0), "reached_assertion": st.get("reached", 0),
                "paths_with_symbolic_decisions": st.get("nontrivial", 0), "vc_trivially_true": st.get("trivial", 0), "vc_discharged_unsat": st.get("discharged", 0), "vc_violated_sat": st.get("violated", 0),
                "exceptions": st.get("exceptions", 0), "infeasible_or_assumed_away": st.get("aborted", 0), "solver_unknown": st.get("unknown", 0),
                "unsupported_paths": st.get("unsupported", 0), "unsupported_reasons": res["unsupported"], "budget_exhausted": st.get("budget", 0),
                "deadline_hit": st.get("timeout", 0), "solver_queries": res["queries"], "solver_s": round(res["solver_s"], 2),
                "concretizations": res["concretizations"], "shards": res["shards"], "wall_s": round(res["wall_s"], 2),
                "reachability_witness": res["witness"], "samples": res["samples"], "top_fork_sites": [[list(k) if isinstance(k, tuple) else k, v] for k, v in res["fork_sites"]],
                "conclusive_share": round(share, 4), "bounds": h.bounds, "outside": h.outside,
            }
            if "per_params" in res:
                row["explorations"] = res["per_params"]
            if res.get("dumped"):
                row["second_solver_crosscheck"] = runner.crosscheck(res["dumped"])
                if row["second_solver_crosscheck"]["disagreements"]:
                    harness_errors.append("%s %s: solver disagreement %s" % (hn, p, row["second_solver_crosscheck"]["disagreements"]))
            per_h.append(row)
            print(
                "%-6s %-40s paths=%d reached=%d discharged=%d trivial=%d violated=%d exc=%d unsup=%d unknown=%d queries=%d solver=%.1fs wall=%.1fs"
                % (hn, json.dumps(p, sort_keys=True)[:40], row["paths"], row["reached_assertion"], row["vc_discharged_unsat"], row["vc_trivially_true"],
                   row["vc_violated_sat"], row["exceptions"], row["unsupported_paths"], row["solver_unknown"], row["solver_queries"], row["solver_s"], row["wall_s"])
            )
            sys.stdout.flush()
            if st.get("harness_exc", 0):
                harness_errors.append("%s %s: %d paths raised inside harness code: %s" % (hn, p, st["harness_exc"], [k for k in res["unsupported"] if k.startswith("HARNESS BUG")][:2]))
            if row["reached_assertion"] == 0:
                harness_errors.append("%s %s: no path reached the assertion (vacuous)" % (hn, p))
            if share < h.min_conclusive_share:
                harness_errors.append("%s %s: conclusive share %.3f below floor %.2f (%s)" % (hn, p, share, h.min_conclusive_share, list(res["unsupported"].items())[:3]))
            # classify counterexamples
            for cex in res["cexs"]:
                if cex["detail"].get("kind") == "budget":
                    continue
                props = list(getattr(h, "props", None) or [h.prop])
                if cex["detail"].get("kind") == "exception":
                    props = list(h.exception_props) if h.exception_props is not None else props + ["C19"]
                else:
                    tagged = set(f.split(":")[0] for f in cex["detail"].get("failed", []) if len(f) > 4 and f[0] == "C" and f[3] == ":")
                    if tagged:
                        props = sorted(tagged)
                if prop not in props:
                    continue
                sigs = ["%s:%s" % (hn, cex["sig"])]
                if getattr(h, "per_clause_findings", False) and cex["detail"].get("kind") == "vc":
                    mine = [f for f in cex["detail"].get("failed", []) if f.startswith(prop + ":")] or cex["detail"].get("failed", [])
                    cp = cex.get("params") or {}
                    fx = cp.get("fixture")
                    suffix = ("|layout-variant" if cp.get("vary") else "|" + os.path.basename(fx)) if fx else ""
                    # a whole-run clause (no rule behind '@') seen on a layout variant is identified by the fixture it was drawn from
                    sigs = ["%s:vc:%s%s" % (hn, f, suffix + ("@" + os.path.basename(fx).replace("_test_input.vhd", "") if (cp.get("vary") and "@" not in f and fx) else "")) for f in mine]
                for sig in sigs:
                    f = findings.setdefault(sig, {"harness": h, "params": cex.get("params", p), "cexs": [], "count": 0})
                    f["count"] = max(f["count"], res["sig_count"].get(cex["sig"], 1))
                    if len(f["cexs"]) < 3:
                        f["cexs"].append(cex)

    # replay one representative per signature (fall back to the next if the first does not reproduce)
    violations = []
    known_hits = []
    for sig, f in sorted(findings.items()):
        h = f["harness"]
        confirmed = None
        last = None
        for cex in f["cexs"]:
            path = runner.write_replay(prop, h, cex.get("params", f["params"]), cex)
            r = runner.run_replay_subprocess(path)
            last = (path, r)
            if r.get("reproduced"):
                confirmed = (path, cex, r)
                break
        if confirmed is None:
            harness_errors.append("counterexample %s did not reproduce on the un-instrumented code: %s (%s)" % (sig, last[1].get("outcome"), last[0]))
            continue
        path, cex, r = confirmed
        k = next((k for k in known if k.get("signature") == sig), None)
        inp = json.dumps(h.describe(cex["values"], cex.get("params", f["params"])), default=repr)[:300]
        if k is not None:
            known_hits.append(sig)
            print("KNOWN-FINDING: property=%s %s [%s] e.g. %s" % (prop, k.get("what", sig), sig, inp))
        else:
            violations.append({"signature": sig, "replay": path, "input": inp, "count": f["count"], "detail": cex["detail"]})

    second_opinion = None
    if prop == "C04" and args.tier == "thorough" and not args.only:
        # an independent engine (CrossHair) on the smallest kernel; a counterexample there while sx passed = disagreement
        import subprocess

        try:
            r = subprocess.run([sys.executable, "-m", "crosshair", "check", "--report_all", "--per_condition_timeout", "90", os.path.join(ROOT, "second_opinion", "tokens_roundtrip.py")],
                               capture_output=True, text=True, timeout=400, cwd=ROOT)
            out = (r.stdout + r.stderr).strip().splitlines()
            second_opinion = {"engine": "crosshair-tool", "kernel": "tokens.create round trip, len(s) <= 1", "output": out[-3:]}
            if any("error:" in ln and "false when calling" in ln.lower() for ln in out) or any("counterexample" in ln.lower() for ln in out):
                harness_errors.append("CrossHair reports a counterexample for the tokenizer round trip that sx did not find: %s" % out[-3:])
        except Exception as e:  # crosshair not installed / timeout: recorded, not a verdict
            second_opinion = {"engine": "crosshair-tool", "skipped": repr(e)[:200]}
        print("second opinion (CrossHair):", second_opinion)

    wall = time.time() - t0
    tot_paths = sum(r["paths"] for r in per_h)
    tot_dis = sum(r["vc_discharged_unsat"] for r in per_h)
    tot_nt = sum(r["paths_with_symbolic_decisions"] for r in per_h)
    samples = []
    for r in per_h:
        for s in r["samples"][:1]:
            samples.append({"harness": r["harness"], "params": r["params"], "path": s})
        if r["reachability_witness"] is not None and len(samples) < 12:
            samples.append({"harness": r["harness"], "params": r["params"], "reachability_witness": r["reachability_witness"]})
    hs = [runner.HARNESSES[n] for n in names]
    evidence = {
        "property_id": prop,
        "tier": args.tier,
        "seed": seed,
        "level": "other",
        "coverage": {
            "explanation": "Bounded symbolic execution of the real vsg source loaded from /repo through an AST import hook; z3 decides every symbolic "
            "branch and, per completed path, the verification condition (path condition AND NOT property) must be unsat. Counterexamples are replayed "
            "in concrete mode against the un-instrumented code before being reported. Bounds per harness are listed under 'harnesses'.",
            "evaluations": tot_paths,
            "distinct_nontrivial": tot_nt,
            "rule": "one evaluation = one explored execution path of a harness; paths are pairwise distinct (disjoint path conditions); a path is non-trivial when it "
            "reached the assertion and its path condition contains at least one solver-decided branch on a symbolic input. 'vc_discharged_unsat' counts the paths whose "
            "final formula was not syntactically true and for which z3 answered unsat; 'vc_trivially_true' those where the proxies already reduced the formula to true",
            "samples": samples[:12] or [{"note": "no path produced a non-trivial obligation"}],
            "exhaustive": all(r["deadline_hit"] == 0 and r["budget_exhausted"] == 0 and r["solver_unknown"] == 0 and r["unsupported_paths"] == 0 for r in per_h),
            "obligations": sum(r["reached_assertion"] for r in per_h),
            "discharged": sum(r["vc_discharged_unsat"] + r["vc_trivially_true"] for r in per_h),
            "solver_queries": sum(r["solver_queries"] for r in per_h),
            "solver_s": round(sum(r["solver_s"] for r in per_h), 2),
            "functions_encoded": sorted(set(sum([instrument.functions_encoded(h.functions) for h in hs], []))),
            "stubs": sorted(set(sum([list(h.stubs) for h in hs], []))),
            "harnesses": per_h,
            "known_findings_hit": known_hits,
            "violations": violations,
            "harness_errors": harness_errors,
            "engine_selftest": st_msg,
            "second_opinion": second_opinion,
        },
        "assumptions": sorted(set(sum([list(h.assumptions) for h in hs], []))) + ["z3 %s and CPython %s are trusted" % (__import__("z3").get_version_string(), sys.version.split()[0])],
        "wall_s": round(wall, 2),
        "violations": len(violations),
    }
    if not args.no_evidence and not args.only:
        os.makedirs(os.path.join(ROOT, "evidence"), exist_ok=True)
        tmp = os.path.join(ROOT, "evidence", prop + ".json.tmp")
        with open(tmp, "w") as f:
            json.dump(evidence, f, indent=1, sort_keys=True, default=repr)
        os.replace(tmp, os.path.join(ROOT, "evidence", prop + ".json"))

    for v in violations:
        print("VIOLATION property=%s replay=%s" % (prop, v["replay"]))
        print("   signature=%s paths=%d input=%s detail=%s" % (v["signature"], v["count"], v["input"], json.dumps(v["detail"], default=repr)[:300]))
    for e in harness_errors:
        print("HARNESS-ERROR:", e)
    print("%s tier=%s: %d paths, %d obligations discharged by z3, %d violations, %d known findings, %.1fs" % (prop, args.tier, tot_paths, tot_dis, len(violations), len(known_hits), wall))
    if violations:
        return EXIT_VIOLATION
    if harness_errors:
        return EXIT_HARNESS
    return EXIT_OK


if __name__ == "__main__":
    rc = main()
    sys.stdout.flush()
    os._exit(rc)
