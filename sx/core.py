"""sx.core - bounded symbolic execution of plain Python by re-execution.

The code under check runs natively on proxy values (SymBool / SymInt / SymStr).
Every branch on a symbolic condition is decided by z3: the condition is evaluated
under a model of the current path condition (so one side is known feasible), the
other side is checked by the solver when the depth-first search backtracks into
it.  At the end of each path the harness hands back a formula phi and z3 must
answer `unsat` for  path-condition AND NOT phi.

The same harness code also runs in *concrete mode* (ConcreteEngine): the
declared inputs then are plain Python values taken from a counterexample and the
code under check runs without any proxy -- that is how a solver model is
replayed against the un-instrumented code.
"""
import sys
import time

import z3

# --------------------------------------------------------------------------
# control-flow exceptions: BaseException so that `except Exception` (and, via the
# import hook's guard, bare `except:`) inside the code under check cannot swallow them


class SxControl(BaseException):
    pass


class PathAbort(SxControl):
    """current path is infeasible / cut by an assumption"""


class Unsupported(SxControl):
    """proxy operation outside the modelled subset -> path is inconclusive"""


class Budget(SxControl):
    """per-path budget exhausted (unwinding assertion failed)"""


class ShardCut(SxControl):
    """path reached the sharding depth; its prefix becomes a work item"""


# --------------------------------------------------------------------------
_CUR = None  # the engine driving the current execution (symbolic or concrete)


def cur():
    return _CUR


def set_cur(e):
    global _CUR
    _CUR = e


def is_z3(x):
    return isinstance(x, z3.ExprRef)


def f_of(x):
    """formula of a truth value: python bool stays, SymBool -> z3 Bool"""
    if isinstance(x, SymBool):
        return x.c
    if isinstance(x, bool) or is_z3(x):
        return x
    if isinstance(x, SymInt):
        return x.t != 0
    return bool(x)


def _simp(c):
    if isinstance(c, bool):
        return c
    c = z3.simplify(c)
    if z3.is_true(c):
        return True
    if z3.is_false(c):
        return False
    return c


def And(*xs):
    out = []
    for x in xs:
        if isinstance(x, (list, tuple)):
            x = And(*x)
        x = f_of(x)
        if x is False:
            return False
        if x is True:
            continue
        out.append(x)
    if not out:
        return True
    return out[0] if len(out) == 1 else z3.And(out)


def Or(*xs):
    out = []
    for x in xs:
        if isinstance(x, (list, tuple)):
            x = Or(*x)
        x = f_of(x)
        if x is True:
            return True
        if x is False:
            continue
        out.append(x)
    if not out:
        return False
    return out[0] if len(out) == 1 else z3.Or(out)


def Not(x):
    x = f_of(x)
    if isinstance(x, bool):
        return not x
    return z3.Not(x)


def Implies(a, b):
    return Or(Not(a), b)


def Iff(a, b):
    a = f_of(a)
    b = f_of(b)
    if isinstance(a, bool) and isinstance(b, bool):
        return a == b
    if isinstance(a, bool):
        return b if a else Not(b)
    if isinstance(b, bool):
        return a if b else Not(a)
    return a == b


def t_of(x):
    """z3 term / python int of an integer-like value"""
    if isinstance(x, SymInt):
        return x.t
    if isinstance(x, bool):
        return int(x)
    return x


def Eq(a, b):
    """formula for a == b over ints, strings (SymStr/str), bools, lists/tuples thereof; never forks"""
    if isinstance(a, (SymStr, str)) and isinstance(b, (SymStr, str)):
        return lift(a)._eq(b)
    if isinstance(a, (SymBool,)) or isinstance(b, (SymBool,)):
        return Iff(a, b)
    if isinstance(a, (SymInt,)) or isinstance(b, (SymInt,)):
        if isinstance(a, (str, SymStr)) or isinstance(b, (str, SymStr)):
            return False
        if a is None or b is None:
            return False
        r = t_of(a) == t_of(b)
        return r if isinstance(r, bool) else _simp(r)
    if isinstance(a, (list, tuple)) and isinstance(b, (list, tuple)):
        if len(a) != len(b):
            return False
        return And([Eq(x, y) for x, y in zip(a, b)])
    if isinstance(a, dict) and isinstance(b, dict):
        if set(a.keys()) != set(b.keys()):
            return False
        return And([Eq(a[k], b[k]) for k in a])
    if isinstance(a, (str, SymStr)) != isinstance(b, (str, SymStr)):
        return False
    r = a == b
    if isinstance(r, SymBool):
        return r.c
    return bool(r)


def If(c, a, b):
    c = f_of(c)
    if c is True:
        return a
    if c is False:
        return b
    ta, tb = t_of(a), t_of(b)
    if isinstance(a, (bool, SymBool)) or isinstance(b, (bool, SymBool)) or z3.is_bool(ta) or z3.is_bool(tb):
        fa, fb = f_of(a), f_of(b)
        fa = z3.BoolVal(fa) if isinstance(fa, bool) else fa
        fb = z3.BoolVal(fb) if isinstance(fb, bool) else fb
        return SymBool(z3.If(c, fa, fb))
    return SymInt(z3.If(c, ta, tb))


def Sum(xs):
    xs = [t_of(x) for x in xs]
    tot = 0
    for x in xs:
        tot = tot + x
    return tot if isinstance(tot, int) else SymInt(tot)


# --------------------------------------------------------------------------
class SymBool:
    __slots__ = ("c",)

    def __new__(cls, c):
        if isinstance(c, bool):
            return c
        if isinstance(c, SymBool):
            return c
        o = object.__new__(cls)
        o.c = c
        return o

    def __bool__(self):
        eng = _CUR
        if eng.symbolic and eng.pinned:
            v = eng.pinned_value(self.c)
            if v is not None:
                return v
        f = sys._getframe(1)
        return eng.branch(self.c, (f.f_code.co_filename.rsplit("/", 1)[-1], f.f_lineno))

    def __eq__(self, o):
        return SymBool(_simp(Iff(self, o))) if isinstance(o, (bool, SymBool)) else False

    def __ne__(self, o):
        return SymBool(_simp(Not(Iff(self, o)))) if isinstance(o, (bool, SymBool)) else True

    def __and__(self, o):
        return SymBool(And(self, o))

    __rand__ = __and__

    def __or__(self, o):
        return SymBool(Or(self, o))

    __ror__ = __or__

    def __invert__(self):
        raise Unsupported("~SymBool")

    def __hash__(self):
        return hash(bool(self))

    def __repr__(self):
        return "SymBool(%s)" % self.c

    def __int__(self):
        return 1 if bool(self) else 0

    def __index__(self):
        return 1 if bool(self) else 0

    def __add__(self, o):
        return SymInt(z3.If(self.c, 1, 0)) + o

    __radd__ = __add__


def wrapb(c):
    if isinstance(c, bool):
        return c
    if isinstance(c, SymBool):
        return c
    return SymBool(c)


class SymInt:
    __slots__ = ("t",)

    def __new__(cls, t):
        if isinstance(t, int):
            return t
        if isinstance(t, SymInt):
            return t
        s = z3.simplify(t)
        if z3.is_int_value(s):
            return s.as_long()
        o = object.__new__(cls)
        o.t = s
        return o

    def _pv(self):
        eng = _CUR
        if eng.symbolic and eng.pinned:
            return eng.pinned_value(self.t)
        return None

    @staticmethod
    def _o(o):
        if isinstance(o, SymInt):
            v = o._pv()
            return o.t if v is None else v
        if isinstance(o, bool):
            return int(o)
        if isinstance(o, int):
            return o
        if isinstance(o, SymBool):
            return z3.If(o.c, 1, 0)
        return None

    def _cmp(self, o, op):
        t = self._o(o)
        if t is None:
            return NotImplemented
        v = self._pv()
        if v is not None:
            r = op(v, t)
            return r if isinstance(r, bool) else wrapb(r)
        return wrapb(op(self.t, t))

    def __eq__(self, o):
        t = self._o(o)
        if t is None:
            return False
        v = self._pv()
        if v is not None:
            r = v == t
            return r if isinstance(r, bool) else wrapb(r)
        if isinstance(t, int):
            return wrapb(_atom(self.t, t, lambda: self.t == t))
        return wrapb(self.t == t)

    def __ne__(self, o):
        t = self._o(o)
        if t is None:
            return True
        v = self._pv()
        if v is not None:
            r = v != t
            return r if isinstance(r, bool) else wrapb(r)
        if isinstance(t, int):
            return wrapb(_atom(self.t, ("ne", t), lambda: self.t != t))
        return wrapb(self.t != t)

    def __lt__(self, o):
        return self._cmp(o, lambda a, b: a < b)

    def __le__(self, o):
        return self._cmp(o, lambda a, b: a <= b)

    def __gt__(self, o):
        return self._cmp(o, lambda a, b: a > b)

    def __ge__(self, o):
        return self._cmp(o, lambda a, b: a >= b)

    def _ar(self, o, op):
        t = self._o(o)
        if t is None:
            return NotImplemented
        v = self._pv()
        return SymInt(op(self.t if v is None else v, t))

    def __add__(self, o):
        return self._ar(o, lambda a, b: a + b)

    def __radd__(self, o):
        return self._ar(o, lambda a, b: b + a)

    def __sub__(self, o):
        return self._ar(o, lambda a, b: a - b)

    def __rsub__(self, o):
        return self._ar(o, lambda a, b: b - a)

    def __mul__(self, o):
        if isinstance(o, (str, list, tuple, SymStr)):
            return o * int(self)
        return self._ar(o, lambda a, b: a * b)

    def __rmul__(self, o):
        if isinstance(o, (str, list, tuple, SymStr)):
            return o * int(self)
        return self._ar(o, lambda a, b: b * a)

    def __floordiv__(self, o):
        t = self._o(o)
        if isinstance(t, int) and t > 0:
            return SymInt(self.t / t)  # z3 Int division is floor division for positive divisors
        raise Unsupported("SymInt // non-positive-constant")

    def __mod__(self, o):
        t = self._o(o)
        if isinstance(t, int) and t > 0:
            return SymInt(self.t % t)
        raise Unsupported("SymInt % non-positive-constant")

    def __neg__(self):
        return SymInt(-self.t)

    def __pos__(self):
        return self

    def __abs__(self):
        return SymInt(z3.If(self.t >= 0, self.t, -self.t))

    def __bool__(self):
        f = sys._getframe(1)
        return _CUR.branch(self.t != 0, (f.f_code.co_filename.rsplit("/", 1)[-1], f.f_lineno))

    def __index__(self):
        v = self._pv()
        if v is not None:
            return v
        return _CUR.concretize(self.t)

    __int__ = __index__

    def __hash__(self):
        return hash(int(self))

    def __repr__(self):
        return "SymInt(%s)" % self.t

    def __str__(self):
        return str(_CUR.concretize(self.t))

    def __format__(self, spec):
        return format(_CUR.concretize(self.t), spec)


# --------------------------------------------------------------------------
# character tables from the running interpreter
_TABLE_RANGE = list(range(0x250)) + list(range(0x370, 0x400)) + [0x1E9E]


def _single(fn):
    d = {}
    multi = {}
    for i in _TABLE_RANGE:
        r = fn(chr(i))
        if len(r) == 1:
            d[i] = ord(r)
        else:
            multi[i] = [ord(x) for x in r]
    return d, multi


LOWER, LOWER_MULTI = _single(str.lower)
UPPER, UPPER_MULTI = _single(str.upper)
FOLD, FOLD_MULTI = _single(str.casefold)
_PRED_CACHE = {}
DOMAIN = 256  # general symbolic characters range over code points 0..DOMAIN-1


def _ranges(vals):
    vals = sorted(vals)
    out = []
    for v in vals:
        if out and out[-1][1] == v - 1:
            out[-1][1] = v
        else:
            out.append([v, v])
    return out


_ATOMS = {}  # (z3 ast id, tag) -> (expr kept alive, formula)


def _atom(c, tag, build):
    key = (c.get_id(), tag)
    r = _ATOMS.get(key)
    if r is None:
        if len(_ATOMS) > 400000:
            _ATOMS.clear()
        r = _ATOMS[key] = (c, build())
    return r[1]


def _in_ranges(c, rs):
    parts = []
    for a, b in rs:
        parts.append(c == a if a == b else z3.And(c >= a, c <= b))
    if not parts:
        return False
    return parts[0] if len(parts) == 1 else z3.Or(parts)


def _cases(c):
    """a case-bit character If(b, x, y) with constant x, y -> (cond, x, y)"""
    if z3.is_app(c) and c.decl().kind() == z3.Z3_OP_ITE:
        a, b = c.arg(1), c.arg(2)
        if z3.is_int_value(a) and z3.is_int_value(b):
            return c.arg(0), a.as_long(), b.as_long()
    return None


def _pred(c, name):
    fn = getattr(str, name)
    if isinstance(c, int):
        return fn(chr(c))

    def build():
        cs = _cases(c)
        if cs:
            cond, a, b = cs
            ra, rb = fn(chr(a)), fn(chr(b))
            if ra == rb:
                return ra
            return cond if ra else z3.Not(cond)
        rs = _PRED_CACHE.get(name)
        if rs is None:
            rs = _PRED_CACHE[name] = _ranges([k for k in range(DOMAIN) if fn(chr(k))])
        return _in_ranges(c, rs)

    return _atom(c, name, build)


_MAP_CACHE = {}


def _map(c, table, multi, tname):
    """image of one character under a 1:1 case table; multi-character images fork"""
    if isinstance(c, int):
        if c in multi:
            return list(multi[c])
        if c not in table:
            raise Unsupported("case mapping of U+%04X" % c)
        return [table[c]]
    cs = _cases(c)
    if cs:
        cond, a, b = cs
        if a in multi or b in multi:
            if _CUR.branch(cond):
                return _map(a, table, multi, tname)
            return _map(b, table, multi, tname)
        a2, b2 = table[a], table[b]
        return [a2 if a2 == b2 else z3.If(cond, a2, b2)]
    # general character over 0..DOMAIN-1
    for k in multi:
        if (k < DOMAIN or not _is_var(c)) and _CUR.branch(_atom(c, k, lambda: c == k)):
            return list(multi[k])
    groups = _MAP_CACHE.get(tname)
    if groups is None:
        # over the whole table range (not only 0..DOMAIN-1): the argument may be the image of an earlier mapping (e.g. upper() of U+00FF)
        by_delta = {}
        for k in sorted(table):
            if table[k] != k:
                by_delta.setdefault(table[k] - k, []).append(k)
        groups = _MAP_CACHE[tname] = [(d, _ranges(v)) for d, v in by_delta.items()]
    def build():
        expr = c
        for d, rs in groups:
            expr = z3.If(_in_ranges(c, rs), c + d, expr)
        return expr

    return [_atom(c, "map:" + tname, build)]


def _eqc_build(a, b):
    cs = _cases(b)
    if cs:
        cond, x, y = cs
        if a == x and a == y:
            return True
        if a == x:
            return cond
        if a == y:
            return z3.Not(cond)
        return False
    return b == a


def _eqc(a, b):
    ai, bi = isinstance(a, int), isinstance(b, int)
    if ai and bi:
        return a == b
    if bi:
        a, b, ai = b, a, True
    if ai:
        key = (b.get_id(), a)
        r = _ATOMS.get(key)
        if r is None:
            if len(_ATOMS) > 400000:
                _ATOMS.clear()
            r = _ATOMS[key] = (b, _eqc_build(a, b))
        return r[1]
    if a is b or a.get_id() == b.get_id():
        return True
    return a == b


def lift(x):
    if isinstance(x, SymStr):
        return x
    o = object.__new__(SymStr)
    o.cps = [ord(ch) for ch in x]
    return o


def is_sym(x):
    return isinstance(x, SymStr)


def _cps(x):
    return x.cps if isinstance(x, SymStr) else [ord(ch) for ch in x]


class SymStr:
    """string of concrete length; each character is an int, a case-bit If(), or a z3 Int"""

    __slots__ = ("cps",)

    def __new__(cls, cps):
        cps = list(cps)
        for i, c in enumerate(cps):
            if not isinstance(c, int):
                if z3.is_int_value(c):
                    cps[i] = c.as_long()
        if all(isinstance(c, int) for c in cps):
            return "".join(map(chr, cps))
        o = object.__new__(cls)
        o.cps = cps
        return o

    # -- structure
    def __len__(self):
        return len(self.cps)

    def __iter__(self):
        for c in self.cps:
            yield SymStr([c])

    def __getitem__(self, i):
        if isinstance(i, slice):
            if any(isinstance(x, (SymInt,)) for x in (i.start, i.stop, i.step)):
                i = slice(*(int(x) if isinstance(x, SymInt) else x for x in (i.start, i.stop, i.step)))
            return SymStr(self.cps[i])
        return SymStr([self.cps[int(i)]])

    def __add__(self, o):
        if not isinstance(o, (str, SymStr)):
            return NotImplemented
        return SymStr(self.cps + _cps(o))

    def __radd__(self, o):
        if not isinstance(o, str):
            return NotImplemented
        return SymStr(_cps(o) + self.cps)

    def __mul__(self, n):
        return SymStr(self.cps * int(n))

    __rmul__ = __mul__

    def __bool__(self):
        return len(self.cps) > 0

    # -- comparison
    def _eq(self, o):
        if not isinstance(o, (str, SymStr)):
            return False
        ocps = _cps(o)
        if len(ocps) != len(self.cps):
            return False
        return And([_eqc(a, b) for a, b in zip(self.cps, ocps)])

    def __eq__(self, o):
        return wrapb(self._eq(o))

    def __ne__(self, o):
        return wrapb(Not(self._eq(o)))

    def __hash__(self):
        raise Unsupported("hash of SymStr " + self.guess())

    def _lt(self, o, strict=True):
        ocps = _cps(o)
        res = (len(self.cps) < len(ocps)) if strict else (len(self.cps) <= len(ocps))
        for a, b in reversed(list(zip(self.cps, ocps))):
            lt = (a < b) if (isinstance(a, int) and isinstance(b, int)) else (a < b)
            eq = _eqc(a, b)
            res = Or(lt, And(eq, res))
        return res

    def __lt__(self, o):
        return wrapb(self._lt(o, True))

    def __le__(self, o):
        return wrapb(self._lt(o, False))

    def __gt__(self, o):
        return wrapb(Not(self._lt(o, False)))

    def __ge__(self, o):
        return wrapb(Not(self._lt(o, True)))

    def __repr__(self):
        return "SymStr(%r)" % self.guess()

    def __str__(self):
        return self

    def __format__(self, spec):
        if spec:
            raise Unsupported("format spec on SymStr")
        return self

    def guess(self):
        out = []
        for c in self.cps:
            if isinstance(c, int):
                out.append(chr(c))
            else:
                cs = _cases(c)
                out.append(chr(cs[2]) if cs else "?")
        return "".join(out)

    def concretize(self):
        return "".join(chr(c if isinstance(c, int) else _CUR.concretize(c)) for c in self.cps)

    # -- case
    def lower(self):
        out = []
        for c in self.cps:
            out += _map(c, LOWER, LOWER_MULTI, "lower")
        return SymStr(out)

    def upper(self):
        out = []
        for c in self.cps:
            out += _map(c, UPPER, UPPER_MULTI, "upper")
        return SymStr(out)

    def casefold(self):
        out = []
        for c in self.cps:
            out += _map(c, FOLD, FOLD_MULTI, "casefold")
        return SymStr(out)

    def swapcase(self):
        raise Unsupported("swapcase")

    def title(self):
        raise Unsupported("title")

    def capitalize(self):
        if not self.cps:
            return ""
        return lift(SymStr(self.cps[:1])).upper() + lift(SymStr(self.cps[1:])).lower() if len(self.cps) > 1 else lift(SymStr(self.cps[:1])).upper()

    def _all(self, name):
        if not self.cps:
            return False
        return wrapb(And([_pred(c, name) for c in self.cps]))

    def isspace(self):
        return self._all("isspace")

    def isdigit(self):
        return self._all("isdigit")

    def isalpha(self):
        return self._all("isalpha")

    def isalnum(self):
        return self._all("isalnum")

    def isnumeric(self):
        return self._all("isnumeric")

    def isdecimal(self):
        return self._all("isdecimal")

    def isascii(self):
        return wrapb(And([(c < 128) if isinstance(c, int) else (True if _cases(c) and max(_cases(c)[1:]) < 128 else c < 128) for c in self.cps]))

    def isupper(self):
        # at least one cased character and no lower-case character
        cased = Or([Or(_pred(c, "isupper"), _pred(c, "islower")) for c in self.cps])
        return wrapb(And(cased, And([Not(_pred(c, "islower")) for c in self.cps])))

    def islower(self):
        cased = Or([Or(_pred(c, "isupper"), _pred(c, "islower")) for c in self.cps])
        return wrapb(And(cased, And([Not(_pred(c, "isupper")) for c in self.cps])))

    # -- searching (forks where the result's shape depends on symbolic content)
    def startswith(self, p, *a):
        if a:
            raise Unsupported("startswith with offsets")
        if isinstance(p, tuple):
            return wrapb(Or([f_of(self.startswith(q)) for q in p]))
        n = len(p)
        if n > len(self.cps):
            return False
        return wrapb(lift(SymStr(self.cps[:n]))._eq(p))

    def endswith(self, p, *a):
        if a:
            raise Unsupported("endswith with offsets")
        if isinstance(p, tuple):
            return wrapb(Or([f_of(self.endswith(q)) for q in p]))
        n = len(p)
        if n > len(self.cps):
            return False
        return wrapb(lift(SymStr(self.cps[len(self.cps) - n:]))._eq(p))

    def _at(self, i, sub):
        n = len(sub)
        return lift(SymStr(self.cps[i:i + n]))._eq(sub)

    def __contains__(self, sub):
        if not isinstance(sub, (str, SymStr)):
            raise TypeError("'in <string>' requires string as left operand")
        n = len(sub)
        if n == 0:
            return True
        return bool(wrapb(Or([self._at(i, sub) for i in range(0, len(self.cps) - n + 1)])))

    def contains_formula(self, sub):
        n = len(sub)
        if n == 0:
            return True
        return Or([self._at(i, sub) for i in range(0, len(self.cps) - n + 1)])

    def find(self, sub, start=0, end=None):
        n = len(sub)
        stop = len(self.cps) if end is None else min(end, len(self.cps))
        for i in range(start, stop - n + 1):
            if wrapb(self._at(i, sub)):
                return i
        return -1

    def rfind(self, sub, start=0, end=None):
        n = len(sub)
        stop = len(self.cps) if end is None else min(end, len(self.cps))
        for i in range(stop - n, start - 1, -1):
            if wrapb(self._at(i, sub)):
                return i
        return -1

    def index(self, sub, *a):
        r = self.find(sub, *a)
        if r < 0:
            raise ValueError("substring not found")
        return r

    def count(self, sub):
        n = len(sub)
        k = 0
        i = 0
        while i <= len(self.cps) - n:
            if wrapb(self._at(i, sub)):
                k += 1
                i += max(n, 1)
            else:
                i += 1
        return k

    def split(self, sep=None, maxsplit=-1):
        out = []
        cur_ = []
        if sep is None:
            if maxsplit != -1:
                raise Unsupported("split(None, maxsplit)")
            for c in self.cps:
                if wrapb(_pred(c, "isspace")):
                    if cur_:
                        out.append(SymStr(cur_))
                        cur_ = []
                else:
                    cur_.append(c)
            if cur_:
                out.append(SymStr(cur_))
            return out
        n = len(sep)
        i = 0
        while i < len(self.cps):
            if (maxsplit < 0 or len(out) < maxsplit) and i + n <= len(self.cps) and wrapb(self._at(i, sep)):
                out.append(SymStr(cur_))
                cur_ = []
                i += n
            else:
                cur_.append(self.cps[i])
                i += 1
        out.append(SymStr(cur_))
        return out

    def splitlines(self, *a):
        raise Unsupported("splitlines")

    def partition(self, sep):
        i = self.find(sep)
        if i < 0:
            return (self, "", "")
        return (SymStr(self.cps[:i]), sep, SymStr(self.cps[i + len(sep):]))

    def _strip_pred(self, c, chars):
        if chars is None:
            return wrapb(_pred(c, "isspace"))
        return wrapb(Or([_eqc(c, k) for k in _cps(chars)]))

    def rstrip(self, chars=None):
        cps = list(self.cps)
        while cps and self._strip_pred(cps[-1], chars):
            cps.pop()
        return SymStr(cps)

    def lstrip(self, chars=None):
        cps = list(self.cps)
        while cps and self._strip_pred(cps[0], chars):
            cps.pop(0)
        return SymStr(cps)

    def strip(self, chars=None):
        r = self.rstrip(chars)
        return r.lstrip(chars)

    def replace(self, a, b, count=-1):
        if count != -1:
            raise Unsupported("replace with count")
        n = len(a)
        if n == 0:
            raise Unsupported("replace of empty string")
        out = []
        i = 0
        while i < len(self.cps):
            if i + n <= len(self.cps) and wrapb(self._at(i, a)):
                out += _cps(b)
                i += n
            else:
                out.append(self.cps[i])
                i += 1
        return SymStr(out)

    def expandtabs(self, *a):
        raise Unsupported("expandtabs")

    def ljust(self, n, f=" "):
        return self + f * max(0, int(n) - len(self.cps))

    def rjust(self, n, f=" "):
        return f * max(0, int(n) - len(self.cps)) + self

    def join(self, it):
        return sx_join(self, it)

    def encode(self, *a, **k):
        raise Unsupported("encode")

    def format(self, *a, **k):
        raise Unsupported("str.format on SymStr")

    def __mod__(self, o):
        raise Unsupported("% on SymStr")

    def __getattr__(self, name):
        raise Unsupported("SymStr." + name)


def sx_join(sep, it):
    items = list(it)
    if not is_sym(sep) and not any(is_sym(x) for x in items):
        return sep.join(items)
    out = []
    s = _cps(sep)
    for k, x in enumerate(items):
        if not isinstance(x, (str, SymStr)):
            raise TypeError("sequence item %d: expected str instance" % k)
        if k:
            out += s
        out += _cps(x)
    return SymStr(out)


# --------------------------------------------------------------------------
class SymKeyDict(dict):
    """a dict that may hold symbolic (SymStr/SymInt) keys: every lookup is a linear scan with ==, which forks on symbolic keys.
    Used by harnesses to hand configuration dictionaries with a symbolic key to the code under check."""

    def __init__(self, items=()):
        dict.__init__(self)
        self._items = []
        for k, v in (items.items() if isinstance(items, dict) else items):
            self[k] = v

    def _find(self, k):
        for i, (kk, _) in enumerate(self._items):
            r = kk == k
            if r is NotImplemented:
                continue
            if r:
                return i
        return -1

    def __getitem__(self, k):
        i = self._find(k)
        if i < 0:
            raise KeyError(k)
        return self._items[i][1]

    def __setitem__(self, k, v):
        i = self._find(k)
        if i < 0:
            self._items.append((k, v))
        else:
            self._items[i] = (self._items[i][0], v)

    def __delitem__(self, k):
        i = self._find(k)
        if i < 0:
            raise KeyError(k)
        del self._items[i]

    def __contains__(self, k):
        return self._find(k) >= 0

    def __iter__(self):
        return iter([k for k, _ in self._items])

    def __len__(self):
        return len(self._items)

    def __bool__(self):
        return bool(self._items)

    def keys(self):
        return [k for k, _ in self._items]

    def values(self):
        return [v for _, v in self._items]

    def items(self):
        return list(self._items)

    def get(self, k, d=None):
        i = self._find(k)
        return d if i < 0 else self._items[i][1]

    def pop(self, k, *d):
        i = self._find(k)
        if i < 0:
            if d:
                return d[0]
            raise KeyError(k)
        return self._items.pop(i)[1]

    def setdefault(self, k, d=None):
        i = self._find(k)
        if i < 0:
            self._items.append((k, d))
            return d
        return self._items[i][1]

    def update(self, other=(), **kw):
        for k, v in (other.items() if hasattr(other, "items") else other):
            self[k] = v
        for k, v in kw.items():
            self[k] = v

    def copy(self):
        return SymKeyDict(self._items)

    def __eq__(self, o):
        raise Unsupported("== on SymKeyDict")

    def __repr__(self):
        return "SymKeyDict(%r)" % (self._items,)


_VARS_OF = {}  # ast id -> (expr kept alive, frozenset of ids of the uninterpreted constants in it)


def vars_of(e):
    k = e.get_id()
    r = _VARS_OF.get(k)
    if r is not None:
        return r[1]
    if len(_VARS_OF) > 400000:
        _VARS_OF.clear()
    if z3.is_const(e):
        vs = frozenset([k]) if e.decl().kind() == z3.Z3_OP_UNINTERPRETED else frozenset()
    else:
        vs = frozenset()
        for ch in e.children():
            vs = vs | vars_of(ch)
    _VARS_OF[k] = (e, vs)
    return vs


def _is_var(e):
    return z3.is_const(e) and e.decl().kind() == z3.Z3_OP_UNINTERPRETED


def _num(e):
    if z3.is_int_value(e):
        return e.as_long()
    if z3.is_true(e):
        return True
    if z3.is_false(e):
        return False
    return None


def pin_of(cond, value):
    """(variable id, value) forced by asserting `cond == value`; None if no single-variable pin is evident"""
    try:
        while z3.is_not(cond):
            cond = cond.arg(0)
            value = not value
        if _is_var(cond):
            return cond.get_id(), bool(value)  # Bool variable
        if value and z3.is_eq(cond):
            a, b = cond.arg(0), cond.arg(1)
            if _is_var(a):
                n = _num(b)
                if n is not None:
                    return a.get_id(), n
            if _is_var(b):
                n = _num(a)
                if n is not None:
                    return b.get_id(), n
    except Exception:
        pass
    return None


class Engine:
    """depth-first exploration by re-execution; one incremental solver mirrors the decision stack"""

    symbolic = True

    def __init__(self, max_branch_events=200000, max_path_seconds=120.0, solver_timeout_ms=20000):
        self.stack = []  # entries: dict(kind, value, cond/expr, frozen)
        self.pos = 0
        self.solver = z3.Solver()
        self.solver.set("timeout", solver_timeout_ms)
        self.levels = 0  # number of stack entries whose constraint is in the solver
        self.model = None
        self.nq = 0
        self.solver_s = 0.0
        self.inputs = {}  # name -> (kind, z3 term or structure)  (declared inputs, for decoding)
        self.max_branch_events = max_branch_events
        self.max_path_seconds = max_path_seconds
        self.events = 0
        self.calls = 0
        self.shard_depth = None
        self.unknowns = 0
        self.concretizations = 0
        self.fork_sites = {}
        self.t_path = 0.0
        self.pinned = {}  # variable id -> (forced value, index of the stack entry that forces it)
        self.nfrozen = 0
        self.dump_vcs = 0
        self.dumped = []
        self.saved_queries = 0

    # ---- pins: variables forced to a single value by the path condition (their conditions need no solver)
    def _set_pin(self, e, cond, value, idx=None):
        self._unpin(e)
        pin = pin_of(cond, value) if cond is not None else None
        if pin is not None and pin[0] not in self.pinned:
            self.pinned[pin[0]] = (pin[1], len(self.stack) - 1 if idx is None else idx)
            e["pin"] = pin[0]

    def _unpin(self, e):
        old = e.get("pin")
        if old is not None:
            self.pinned.pop(old, None)
            e["pin"] = None

    def _all_pinned(self, cond):
        if not self.pinned:
            return False
        for v in vars_of(cond):
            if v not in self.pinned:
                return False
        return True

    def pinned_value(self, t):
        """concrete value of variable term t if an *earlier* decision of the current path forces it, else None"""
        r = self.pinned.get(t.get_id())
        if r is not None and r[1] < self.pos:
            return r[0]
        return None

    # ---- solver plumbing
    def _check(self, *extra):
        self.nq += 1
        t0 = time.time()
        r = self.solver.check(*extra)
        self.solver_s += time.time() - t0
        return r

    def _push_constraint(self, c):
        self.solver.push()
        self.solver.add(c)
        self.levels += 1

    def _eval_bool(self, c):
        if self.model is None:
            r = self._check()
            if r != z3.sat:
                raise PathAbort()
            self.model = self.solver.model()
        v = self.model.eval(c, model_completion=True)
        if z3.is_true(v):
            return True
        if z3.is_false(v):
            return False
        return None

    # ---- events (every one of these occupies one stack slot, so replay is positional)
    def _replayed(self):
        if self.pos < len(self.stack):
            e = self.stack[self.pos]
            self.pos += 1
            return e
        return None

    def _prefix_done(self):
        """the last decision of a frozen shard prefix has just been re-asserted: make sure the prefix is feasible at all"""
        if self.pos == self.nfrozen:
            r = self._check()
            if r != z3.sat:
                if r == z3.unknown:
                    self.unknowns += 1
                raise PathAbort()
            self.model = self.solver.model()

    def _tick(self):
        self.events += 1
        if self.events > self.max_branch_events:
            raise Budget("branch events > %d" % self.max_branch_events)
        if (self.events & 255) == 0 and time.time() - self.t_path > self.max_path_seconds:
            raise Budget("path time > %ss" % self.max_path_seconds)

    def branch(self, cond, where=None):
        if isinstance(cond, bool):
            return cond
        self._tick()
        e = self._replayed()
        if e is not None:
            if self.pos > self.levels:  # constraint not yet in the solver (fresh solver / shard prefix)
                self._push_constraint(cond if e["value"] else z3.Not(cond))
                self.model = None
                if e["kind"] == "p":
                    self._set_pin(e, cond, e["value"], self.pos - 1)
                    self._prefix_done()
            return e["value"]
        if self.shard_depth is not None and len(self.stack) >= self.shard_depth:
            raise ShardCut()
        v = self._eval_bool(cond)
        if v is None:
            # model could not decide: ask the solver for the True side
            v = self._check(cond) == z3.sat
            self.model = None
        # every variable of the condition already forced to one value -> the other side is infeasible, no query needed
        decided = self._all_pinned(cond)
        if decided:
            self.saved_queries += 1
        e = {"kind": "b", "value": v, "cond": cond, "open": not decided, "where": where}
        self.stack.append(e)
        self.pos += 1
        self._push_constraint(cond if v else z3.Not(cond))
        if not decided:
            self._set_pin(e, cond, v)
        return v

    def assume(self, cond):
        cond = f_of(cond)
        if cond is True:
            return
        if cond is False:
            raise PathAbort()
        e = self._replayed()
        if e is not None:
            if self.pos > self.levels:
                self._push_constraint(cond)
                self.model = None
                if e["kind"] == "p":
                    self._set_pin(e, cond, True, self.pos - 1)
                    self._prefix_done()
            return
        e = {"kind": "a", "value": True, "open": False}
        self.stack.append(e)
        self.pos += 1
        self._push_constraint(cond)
        self._set_pin(e, cond, True)
        if self.model is not None and self._eval_bool(cond) is True:
            return
        r = self._check()
        if r == z3.sat:
            self.model = self.solver.model()
            return
        if r == z3.unknown:
            self.unknowns += 1
        raise PathAbort()

    def concretize(self, expr):
        """fork over the feasible values of an integer term"""
        if isinstance(expr, int):
            return expr
        expr = z3.simplify(expr)
        if z3.is_int_value(expr):
            return expr.as_long()
        self._tick()
        e = self._replayed()
        if e is not None:
            if self.pos > self.levels:
                self._push_constraint(expr == e["value"])
                self.model = None
                if e["kind"] == "p":
                    self._set_pin(e, expr == e["value"], True, self.pos - 1)
                    self._prefix_done()
            return e["value"]
        if self.shard_depth is not None and len(self.stack) >= self.shard_depth:
            raise ShardCut()
        if self.model is None:
            self._eval_bool(z3.BoolVal(True))
        v = self.model.eval(expr, model_completion=True)
        if not z3.is_int_value(v):
            raise Unsupported("cannot concretize %s" % expr)
        v = v.as_long()
        self.concretizations += 1
        decided = self._all_pinned(expr)
        e = {"kind": "c", "value": v, "expr": expr, "tried": [v], "open": not decided}
        self.stack.append(e)
        self.pos += 1
        self._push_constraint(expr == v)
        if not decided:
            self._set_pin(e, expr == v, True)
        return v

    def choose(self, name, n):
        """an input: integer in range(n), explored by forking (structural choice)"""
        t = self.int(name, 0, n - 1)
        return self.concretize(t_of(t))

    # ---- declared inputs
    def _decl(self, name, kind, term):
        self.inputs[name] = (kind, term)
        return term

    def bool(self, name):
        return SymBool(self._decl(name, "bool", z3.Bool(name)))

    def boolf(self, name):
        """declared Bool input as a bare formula (never forks by itself)"""
        return self._decl(name, "bool", z3.Bool(name))

    def int(self, name, lo, hi):
        t = self._decl(name, "int", z3.Int(name))
        self.assume(z3.And(t >= lo, t <= hi))
        return SymInt(t)

    def char_term(self, name, exclude=(10, 13), lo=0, hi=None):
        t = self._decl(name, "int", z3.Int(name))
        hi = DOMAIN - 1 if hi is None else hi
        cs = [t >= lo, t <= hi] + [t != x for x in exclude]
        self.assume(z3.And(cs))
        return t

    def str(self, name, n, exclude=(10, 13), alphabet=None):
        """symbolic string of exactly n characters over code points 0..255 minus `exclude`, or over `alphabet`"""
        cps = []
        for i in range(n):
            t = self._decl("%s[%d]" % (name, i), "int", z3.Int("%s[%d]" % (name, i)))
            if alphabet is not None:
                self.assume(_in_ranges(t, _ranges([ord(a) for a in alphabet])))
            else:
                self.assume(z3.And([t >= 0, t <= DOMAIN - 1] + [t != x for x in exclude]))
            cps.append(t)
        self.inputs[name] = ("str", n)
        return SymStr(cps)

    def cased(self, name, text, keep=None):
        """`text` with one case bit per cased character (keep(i) true -> character stays concrete)"""
        cps = []
        for i, ch in enumerate(text):
            up, lo = ch.upper(), ch.lower()
            if up != lo and len(up) == 1 and len(lo) == 1 and not (keep and keep(i)):
                b = self._decl("%s@%d" % (name, i), "bool", z3.Bool("%s@%d" % (name, i)))
                cps.append(z3.If(b, ord(up), ord(lo)))
            else:
                cps.append(ord(ch))
        self.inputs[name] = ("cased", text)
        return SymStr(cps)

    # ---- decoding a model into plain values
    def decode(self, model):
        out = {}
        for name, (kind, term) in self.inputs.items():
            if kind == "bool":
                out[name] = bool(z3.is_true(model.eval(term, model_completion=True)))
            elif kind == "int":
                out[name] = model.eval(term, model_completion=True).as_long()
        return out

    # ---- exploration
    def _backtrack(self):
        """move to the next unexplored alternative; False when the tree is exhausted"""
        while self.stack:
            e = self.stack[-1]
            if e.get("frozen"):
                return False
            # drop solver levels above and including this entry
            while self.levels >= len(self.stack):
                self.solver.pop()
                self.levels -= 1
            self.model = None
            if e["kind"] == "b" and e["open"]:
                alt = not e["value"]
                c = e["cond"] if alt else z3.Not(e["cond"])
                self.solver.push()
                self.solver.add(c)
                r = self._check()
                if r == z3.sat:
                    self.model = self.solver.model()
                    self.levels += 1
                    e["value"] = alt
                    e["open"] = False
                    self._set_pin(e, e["cond"], alt)
                    if e.get("where") is not None:
                        self.fork_sites[e["where"]] = self.fork_sites.get(e["where"], 0) + 1
                    return True
                self.solver.pop()
                if r == z3.unknown:
                    self.unknowns += 1
            elif e["kind"] == "c" and e["open"]:
                self.solver.push()
                self.solver.add(z3.And([e["expr"] != v for v in e["tried"]]))
                r = self._check()
                if r == z3.sat:
                    m = self.solver.model()
                    v = m.eval(e["expr"], model_completion=True).as_long()
                    self.solver.pop()
                    self.solver.push()
                    self.solver.add(e["expr"] == v)
                    self.levels += 1
                    self.model = m
                    e["value"] = v
                    e["tried"].append(v)
                    self._set_pin(e, e["expr"] == v, True)
                    return True
                self.solver.pop()
                if r == z3.unknown:
                    self.unknowns += 1
            self._unpin(e)
            self.stack.pop()
        return False

    def split_open(self):
        """give up this engine's remaining work: one frozen prefix per unexplored alternative (destroys the stack)"""
        out = []
        vals = self.prefix_values()
        for i in range(len(self.stack) - 1, -1, -1):
            e = self.stack[i]
            if e.get("frozen") or not e.get("open"):
                continue
            if e["kind"] == "b":
                out.append(vals[:i] + [not e["value"]])
            elif e["kind"] == "c":
                while self.levels > i:
                    self.solver.pop()
                    self.levels -= 1
                tried = list(e["tried"])
                while True:
                    self.solver.push()
                    self.solver.add(z3.And([e["expr"] != v for v in tried]))
                    r = self._check()
                    if r != z3.sat:
                        self.solver.pop()
                        if r == z3.unknown:
                            self.unknowns += 1
                        break
                    v = self.solver.model().eval(e["expr"], model_completion=True).as_long()
                    self.solver.pop()
                    tried.append(v)
                    out.append(vals[:i] + [v])
        self.stack = []
        self.pinned = {}
        while self.levels > 0:
            self.solver.pop()
            self.levels -= 1
        self.model = None
        return out

    def start_path(self):
        self.pos = 0
        self.events = 0
        self.calls = 0
        self.inputs = {}
        self.t_path = time.time()
        set_cur(self)

    def load_prefix(self, values):
        """start below a frozen prefix of decisions (shard work item); solver constraints are rebuilt on replay"""
        self.stack = [{"kind": "p", "value": v, "open": False, "frozen": True} for v in values]
        self.nfrozen = len(values)
        self.pinned = {}
        while self.levels > 0:
            self.solver.pop()
            self.levels -= 1
        self.model = None

    def prefix_values(self):
        return [e["value"] for e in self.stack]

    def check_vc(self, phi):
        """decide  pi AND NOT phi ; returns ('unsat'|'sat'|'unknown', model)"""
        phi = f_of(phi)
        if phi is True:
            return "trivial", None
        if phi is False:
            if self.model is None:
                r = self._check()
                if r != z3.sat:
                    return ("unknown" if r == z3.unknown else "unsat"), None
                self.model = self.solver.model()
            return "sat", self.model
        self.solver.push()
        self.solver.add(z3.Not(phi))
        r = self._check()
        m = self.solver.model() if r == z3.sat else None
        if self.dump_vcs and r == z3.unsat and len(self.dumped) < self.dump_vcs:
            self.dumped.append(self.solver.to_smt2())  # path condition AND NOT property, as SMT-LIB2, for a second solver
        self.solver.pop()
        return str(r), m

    def current_model(self):
        if self.model is None:
            r = self._check()
            if r != z3.sat:
                return None
            self.model = self.solver.model()
        return self.model


class ConcreteEngine:
    """replay mode: declared inputs are plain values, no proxies, no solver"""

    symbolic = False

    def __init__(self, values):
        self.values = values
        self.inputs = {}

    def start_path(self):
        set_cur(self)

    def branch(self, cond, where=None):
        if isinstance(cond, bool):
            return cond
        c = z3.simplify(cond)
        if z3.is_true(c):
            return True
        if z3.is_false(c):
            return False
        raise RuntimeError("symbolic condition in concrete mode: %s" % cond)

    def assume(self, cond):
        cond = f_of(cond)
        if is_z3(cond):
            cond = z3.is_true(z3.simplify(cond))
        if not cond:
            raise PathAbort()

    def concretize(self, expr):
        if isinstance(expr, int):
            return expr
        e = z3.simplify(expr)
        if z3.is_int_value(e):
            return e.as_long()
        raise RuntimeError("symbolic int in concrete mode")

    def choose(self, name, n):
        v = self.values[name]
        if not (0 <= v < n):
            raise PathAbort()
        return v

    def bool(self, name):
        return bool(self.values.get(name, False))

    boolf = bool

    def int(self, name, lo, hi):
        v = int(self.values.get(name, lo))
        if not (lo <= v <= hi):
            raise PathAbort()
        return v

    def char_term(self, name, exclude=(10, 13), lo=0, hi=None):
        return int(self.values.get(name, 32))

    def str(self, name, n, exclude=(10, 13), alphabet=None):
        dflt = ord(alphabet[0]) if alphabet else 32
        return "".join(chr(int(self.values.get("%s[%d]" % (name, i), dflt))) for i in range(n))

    def cased(self, name, text, keep=None):
        out = []
        for i, ch in enumerate(text):
            up, lo = ch.upper(), ch.lower()
            if up != lo and len(up) == 1 and len(lo) == 1 and not (keep and keep(i)):
                out.append(up if self.values.get("%s@%d" % (name, i), False) else lo)
            else:
                out.append(ch)
        return "".join(out)
