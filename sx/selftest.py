"""sx.selftest - differential test of the proxies against CPython (run at the start of every check).

(i) exhaustive per code point 0..255 for the unary character tables;
(ii) symbolic operands pinned by the path condition to random concrete values: the proxy result, evaluated
     under the solver's model, must equal the builtin's result on the concrete operands;
(iii) the import hook's rewrites are the identity on concrete values (tokenizer on the repo's own test lines)."""
import random

import z3

from . import core
from .core import SymBool, SymInt, SymStr

ALPHA = "aZ \t\"'\\-/*=<>?:;()_.eE0 9xXbB\xdf\xff\xb5\xc4\xe4\xa0\x1c,&"


class Pinned:
    """an engine whose 'model' is a fixed assignment: conditions are decided by substitution (no solver).
    Exercises exactly the formula construction of the proxies."""

    symbolic = True
    pinned = {}

    def __init__(self):
        self.subs = []
        self.inputs = {}
        self.calls = 0

    def start_path(self):
        core.set_cur(self)

    def val(self, e):
        return z3.simplify(z3.substitute(e, *self.subs)) if self.subs else z3.simplify(e)

    def branch(self, cond, where=None):
        if isinstance(cond, bool):
            return cond
        v = self.val(cond)
        if z3.is_true(v):
            return True
        if z3.is_false(v):
            return False
        raise RuntimeError("pinned engine could not decide %s" % cond)

    def concretize(self, e):
        if isinstance(e, int):
            return e
        return self.val(e).as_long()

    def assume(self, c):
        pass

    def pin_str(self, name, s):
        if not s:
            return ""
        cps = []
        for i, ch in enumerate(s):
            t = z3.Int("%s[%d]" % (name, i))
            self.subs.append((t, z3.IntVal(ord(ch))))
            cps.append(t)
        return SymStr(cps)

    def pin_int(self, name, v):
        t = z3.Int(name)
        self.subs.append((t, z3.IntVal(v)))
        return SymInt(t)

    def pin_bool(self, name, v):
        t = z3.Bool(name)
        self.subs.append((t, z3.BoolVal(v)))
        return t


def _ev(eng, x):
    if isinstance(x, SymStr):
        return "".join(chr(c if isinstance(c, int) else eng.val(c).as_long()) for c in x.cps)
    if isinstance(x, SymBool):
        return z3.is_true(eng.val(x.c))
    if isinstance(x, SymInt):
        return eng.val(x.t).as_long()
    if isinstance(x, (list, tuple)):
        return type(x)(_ev(eng, y) for y in x)
    return x


def _sym(eng, name, s):
    return eng.pin_str(name, s)


UNARY = ["lower", "upper", "casefold", "isspace", "isdigit", "isalpha", "isalnum", "isupper", "islower", "strip", "rstrip", "lstrip", "split"]
BINARY = ["startswith", "endswith", "find", "count", "split", "replace1", "__contains__", "__eq__", "__ne__", "__lt__", "__le__", "__add__", "rstrip", "partition"]


def run(seed=0):
    rnd = random.Random(seed)
    n = 0
    # (i) tables
    for cp in range(256):
        ch = chr(cp)
        for name in ("isspace", "isdigit", "isalpha", "isalnum", "isupper", "islower"):
            eng = Pinned()
            eng.start_path()
            s = _sym(eng, "s", ch)
            got = _ev(eng, getattr(s, name)())
            if got != getattr(ch, name)():
                return False, "table %s(U+%04X): proxy %r builtin %r" % (name, cp, got, getattr(ch, name)())
            n += 1
        for name in ("lower", "upper", "casefold"):
            eng = Pinned()
            eng.start_path()
            s = _sym(eng, "s", ch)
            got = _ev(eng, getattr(s, name)())
            if got != getattr(ch, name)():
                return False, "table %s(U+%04X): proxy %r builtin %r" % (name, cp, got, getattr(ch, name)())
            # case-bit character
            if len(ch.upper()) == 1 and len(ch.lower()) == 1 and ch.upper() != ch.lower():
                for bit in (True, False):
                    e2 = Pinned()
                    e2.start_path()
                    c3 = SymStr([z3.If(e2.pin_bool("w@0", bit), ord(ch.upper()), ord(ch.lower()))])
                    conc = ch.upper() if bit else ch.lower()
                    got = _ev(e2, getattr(c3, name)())
                    if got != getattr(conc, name)():
                        return False, "cased %s(%r): proxy %r builtin %r" % (name, conc, got, getattr(conc, name)())
            n += 1
    # (ii) random operands
    for _ in range(220):
        a = "".join(rnd.choice(ALPHA) for _ in range(rnd.randint(0, 4)))
        b = "".join(rnd.choice(ALPHA) for _ in range(rnd.randint(1, 2)))
        if rnd.random() < 0.5 and a:
            i = rnd.randrange(len(a))
            b = a[i:i + len(b)] or b
        for name in UNARY:
            eng = Pinned()
            eng.start_path()
            s = _sym(eng, "s", a)
            want = getattr(a, name)()
            got = _ev(eng, getattr(s, name)()) if isinstance(s, SymStr) else want
            if got != want:
                return False, "%r.%s(): proxy %r builtin %r" % (a, name, got, want)
            n += 1
        for name in BINARY:
            for symb in (False, True):
                eng = Pinned()
                eng.start_path()
                s = _sym(eng, "s", a)
                t = _sym(eng, "t", b) if symb else b
                if not isinstance(s, SymStr):
                    continue
                if name == "replace1":
                    want = a.replace(b, "<>")
                    got = _ev(eng, s.replace(t, "<>"))
                elif name == "__contains__":
                    want = b in a
                    got = s.__contains__(t)
                elif name == "__add__":
                    want = a + b
                    got = _ev(eng, s + t)
                elif name == "rstrip":
                    want = a.rstrip(b)
                    got = _ev(eng, s.rstrip(b))
                else:
                    want = getattr(a, name)(b)
                    got = _ev(eng, getattr(s, name)(t))
                if got != want:
                    return False, "%r.%s(%r)[sym=%s]: proxy %r builtin %r" % (a, name, b, symb, got, want)
                n += 1
    # SymInt arithmetic / str() / int()
    from . import instrument

    for _ in range(60):
        x, y = rnd.randint(0, 120), rnd.randint(1, 9)
        eng = Pinned()
        eng.start_path()
        sx_ = eng.pin_int("x", x)
        for got, want in (
            (sx_ + y, x + y), (sx_ - y, x - y), (sx_ * y, x * y), (sx_ // y, x // y), (sx_ % y, x % y), (sx_ < y, x < y), (sx_ >= y, x >= y),
            (instrument.sx_str(sx_), str(x)), (instrument.sx_int(instrument.sx_str(sx_)), x),
        ):
            if _ev(eng, got) != want:
                return False, "SymInt op mismatch x=%d y=%d: %r vs %r" % (x, y, _ev(eng, got), want)
            n += 1
    # symbolic regex matcher against the re module
    import re
    from . import symre

    pats = [r"^\s*--\s+synthesis\s+translate_off\s*$", r"^\s*--\s+pragma\s+\w+\s*$", r"^\s*--\s+synthesis\s+\w+\s+\w+\s*$", r"^\s*--vhdl_comp_off\s*$",
            r"(?!.*[A-Z]{3})[a-z][a-zA-Z0-9]*", r"(?:[a-z])+(?:[a-z0-9])*((?:[A-Z])+(?:[a-z0-9])+)*([A-Z])?", r"(?!.*[A-Z]{3})[A-Z][a-z0-9]*(?:_[A-Z0-9][a-z0-9]*)*",
            r"((?:[A-Z])+(?:[a-z0-9])+)+([A-Z]*)?", r"a|bc", r"[^ab]+x?", r"\d{1,2}\.\d*", r""]
    words = ["--", " ", "\t", "synthesis", "translate_off", "pragma", "x", "A", "Bc", "ABC", "a1", "_", "-- ", "9.", "--vhdl_comp_off", "aB", "b", "c"]
    for pat in pats:
        cp = re.compile(pat)
        for _ in range(8):
            txt = "".join(rnd.choice(words) for _ in range(rnd.randint(0, 4)))
            for mode in ("match", "fullmatch", "search"):
                eng = Pinned()
                eng.start_path()
                st = _sym(eng, "s", txt)
                want = getattr(cp, mode)(txt) is not None
                got = symre.formula(cp, mode, st)
                got = got if isinstance(got, bool) else z3.is_true(eng.val(got))
                if got != want:
                    return False, "regex %r.%s(%r): symbolic %r, re module %r" % (pat, mode, txt, got, want)
                n += 1
            # path-counting semantics: a string is matched iff it is consumed in at least one way; on concrete text vs symbolic text
            tree = list(symre.sre_parse.parse(pat, 0))
            eng = Pinned()
            eng.start_path()
            st = _sym(eng, "s", txt)
            ways_c = symre._count(tree, {0: 1}, [ord(c) for c in txt], 0).get(len(txt), 0)
            ways_s = symre._count(tree, {0: 1}, core._cps(st), 0).get(len(txt), 0)
            ways_s = ways_s if isinstance(ways_s, int) else eng.val(ways_s).as_long()
            if (ways_c > 0) != (cp.fullmatch(txt) is not None) or ways_c != ways_s:
                return False, "regex path count %r on %r: concrete %r symbolic %r, fullmatch %r" % (pat, txt, ways_c, ways_s, cp.fullmatch(txt))
            n += 1
    # (iii) the hook is the identity on concrete values: tokenizer on sample lines, instrumented vs builtin semantics
    try:
        import sys

        if "vsg.tokens" in sys.modules or instrument._INSTALLED:
            from vsg import tokens

            for line in ['  a <= b"1001" & x"AF" -- c', "x := 1.0e-3 * 2#1111_1111#;", "s <= 'a' & \"=>\" & '(' ;", "\\ext id\\ <= '1' when a ?/= b else 'Z';", "/* c */ a<=b;"]:
                if "".join(tokens.create(line)) != line:
                    return False, "instrumented tokens.create does not round-trip %r" % line
                n += 1
    except Exception as e:  # pragma: no cover
        return False, "hook identity check raised %r" % (e,)
    return True, "%d differential comparisons against CPython passed" % n
