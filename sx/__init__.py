"""sx - bounded symbolic execution of the real vsg source (see /verif/DESIGN.md section 2)."""
