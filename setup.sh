#!/bin/bash
# Builds the overlay venv (/verif/.venv): /venv's packages + z3-solver (+ crosshair-tool) from the offline wheelhouse.
set -e
cd "$(dirname "$0")"
if [ ! -x .venv/bin/python ] || ! .venv/bin/python -c "import z3, yaml" 2>/dev/null; then
  rm -rf .venv
  /venv/bin/python -m venv .venv
  SP=$(.venv/bin/python -c "import site; print(site.getsitepackages()[0])")
  printf "import site; site.addsitedir('/venv/lib/python3.12/site-packages')\n" > "$SP/vsg_overlay.pth"
  PIP_NO_INDEX=1 .venv/bin/pip install -q --no-index --find-links /opt/veriftools/wheels z3-solver >/dev/null
  PIP_NO_INDEX=1 .venv/bin/pip install -q --no-index --find-links /opt/veriftools/wheels crosshair-tool >/dev/null 2>&1 || echo "note: crosshair-tool not installed (second-opinion checks skipped)"
fi
.venv/bin/python -c "import z3, yaml; print('overlay venv ok, z3', z3.get_version_string())"
