TECHNIQUE = "bounded symbolic execution of the real Python source (own engine sx: proxy values + AST import hook), z3 decides every branch and every per-path verification condition, concrete replay of solver models on the un-instrumented code"
SOURCE_COMMITS = []
NOTES = ("All checks go through ./check <ID> --tier quick|thorough; exit 0 held (KNOWN-FINDING lines for listed findings) / 1 with VIOLATION line / 3 harness error "
         "(non-reproducing model, engine self-test failure, inconclusive share above floor). Known and fixed findings: known_findings.json. Seeded changes used to test the checks: seeded/. See DESIGN.md.")
NOT_APPLICABLE = {}
_T = "trusts z3, CPython and the sx proxies (differentially self-tested against CPython at the start of every run); "
CLAIMS = {
    "C01": {
        "text": "Bounded: K01b proves for every token text of <=2 (3) characters over U+0000..U+00FF and all nine case options that the real token_case/case_utils fix is a pure case map (same length, same lower-cased text; a token starting with a quote is never touched, also with prefix/suffix exceptions); K01c proves the consistent-case rules rewrite a use only to a spelling that differs in case alone (two symbolic names). L01 runs the whole product (tokenizer, classifier, all shipped rules, rule_list.fix) on corpus fixtures whose letter case in a window is symbolic and, in layout-variation explorations, whose whitespace gaps/line ends in a window take engine-forked alternatives; after every single rule application it checks that code tokens are the same objects in the same order with the same text (case rules: modulo case, literals exact; structure rules: only documented kinds of insertions/removals).",
        "design_ref": "DESIGN.md section 4 C01, section 3",
        "note": _T + "token structure is that of the 957 corpus fixtures and their layout neighbourhoods; the phase-1 allow-list is calibrated against the current tree",
    },
    "C02": {
        "text": "Bounded: L02 checks on the same whole-pipeline explorations that after every rule application the comment / pragma / preprocessor tokens are unchanged in number, order, type and text (modulo the documented blank/tab normalisation for comment and whitespace rules; documented comment-removing rule families exempt) and that no '--' comment newly loses its line break.",
        "design_ref": "DESIGN.md section 4 C02",
        "note": _T + "comment positions are those of the corpus plus engine-forked trailing / own-line comments in a window",
    },
    "C03": {
        "text": "Bounded: K03 proves on 1-3 stub rules with fully symbolic metadata that rule_list.fix runs _fix_violation exactly for enabled, fixable, error-severity rules of phases 1..N not skipped; K12a proves configured disable/fixable/severity reach the rule from every configuration level; K01b proves case fixes are case-only; L03 checks the effect class of every real rule application on corpus explorations (layout-only, case-only, nothing).",
        "design_ref": "DESIGN.md section 4 C03",
        "note": _T + "effect classes follow the rule's group (a structure rule living in phase 5 is structural); corpus bound as C01",
    },
    "C04": {
        "text": "Bounded: K04a proves ''.join(tokens.create(s)) == s for every string of <=2 (3) characters over U+0000..U+00FF; K04c proves the per-line pipeline (tokenizer + blank/whitespace/comment/preprocessor/pragma classification, symbolic regex) gives back every line of <=2 (3) characters inside and outside a delimited comment; K16 proves on a model file system that nothing is written without --fix and the target is untouched when no rule fixed anything; L04 proves parse+emit returns the input lines for every case variant of whole corpus files; K04g proves it for the classifier's token-splitting builders (selected names of use clauses / context references with 1..5 parts).",
        "design_ref": "DESIGN.md section 4 C04",
        "note": _T + "lines contain no CR/LF; file system is a model",
    },
    "C05": {
        "text": "Bounded: K05a proves that the post-classification passes give every expression token (every sequence of <=3 (4) words of a 13-word vocabulary) the same role with a blank, a line break or a comment of any of 5 kinds in a gap. L05 makes every letter of a whole corpus file case-symbolic: the complete tokenizer+classifier runs on a single path and the role of every token equals the concrete baseline (all 2^letters case variants at once). L05b forks over layout alternatives (line break, comment + line break, extra blanks/tab; trailing and own-line comments) at up to 5 whitespace gaps of a window and proves acceptance and identical code-token roles.",
        "design_ref": "DESIGN.md section 4 C05",
        "note": _T + "re-layout beyond 5 gaps at a time and removal of existing line breaks are outside",
    },
    "C06": {
        "text": "Bounded: K06 proves repeatability and independence of check_rules on 2-3 stub rules with symbolic metadata; K06c analyses each rule's own fixture with that rule under every value of each of its string options (domain read from the rule's source and docstring, engine-forked) and proves tokens and token index are left untouched and a repeated analysis reports the same; L06 proves on corpus explorations (incl. option-flip configurations) that analysis leaves token state and the token index untouched, that a second check reports the same, and that each reporting rule alone on a fresh parse reports what it reported inside the full run.",
        "design_ref": "DESIGN.md section 4 C06",
        "note": _T + "at most 6 reporting rules per file are re-run alone",
    },
    "C07": {
        "text": "Bounded: L07 compares, for every application of a whitespace / indent / alignment / case rule in a full fix run on corpus explorations (case-symbolic window or layout variation), the set of changed lines (symbolic line comparison decided by z3) with the lines the rule reported; line count unchanged; reported lines within the file.",
        "design_ref": "DESIGN.md section 4 C07",
        "note": _T + "whitespace widths are those of the corpus and its layout variants (no symbolic widths)",
    },
    "C08": {
        "text": "Bounded: L08 re-parses the fixed text and compares token count, roles, values and indent levels with the in-memory model, and the violations of a fresh check with those of the fix run's model; K14b proves through apply_rules + main on stub rules that the report after --fix lists each violation exactly once. K13b (stub rules, symbolic phases) proves rule_list.fix normalises the model exactly once right after phase 1 (fix_blank_lines, fix_trailing_whitespace, update_token_map); K08b proves for every token list of <=7 (8) tokens that this clean-up leaves the model in the form a fresh parse has (no blank before a line break, every empty line a blank_line token) and is idempotent. K08c runs the real fix of every shipped whitespace_between_tokens rule on its own fixture under every documented spelling of number_of_spaces (N, >N, >=N, N+, <N, <=N; N in 0..3, engine-forked) and proves the model equals a fresh parse of the written text (no zero-width token) and the rule reports the same on both.",
        "design_ref": "DESIGN.md section 4 C08",
        "note": _T + "corpus bound as C01",
    },
    "C09": {
        "text": "Bounded: L09 proves fix(fix(x)) == fix(x) (text) on corpus explorations under 18 configurations (default, jcl, indent_only, flipA-H, option sweeps flipI0-4 and flipJ0-1 derived from the rules own source). K08b: the post-phase-1 clean-up applied twice equals applying it once, for every token list of <=7 (8) tokens. Configurations: 18 (default, jcl, indent_only, flipA-H, option sweeps flipI0-4, flipJ0-1).",
        "design_ref": "DESIGN.md section 4 C09",
        "note": _T + "corpus bound as C01; two iterations",
    },
    "C10": {
        "text": "Bounded: L10 applies every rule that changed something a second time right away (same rule object, live model) and proves the model is unchanged. K08c: for every shipped whitespace_between_tokens rule on its own fixture and every documented spelling of number_of_spaces (6 operators x N in 0..3), a fresh check of the text the rule's fix wrote reports nothing for that rule.",
        "design_ref": "DESIGN.md section 4 C10",
        "note": _T + "corpus bound as C01",
    },
    "C11": {
        "text": "Bounded: K11a drives the real set_code_tags/code_tags/has_code_tag/add_violation state machine over every sequence of <=4 (5) lines from {code, vsg_off, vsg_on, vsg_disable_next_line, comment, blank} with symbolic rule ids and compares, by z3, with a reference interpreter of docs/code_tags.rst; K11b does the same for the tag text (every tail of <=3 (4) characters over a 7-symbol alphabet). L11 inserts bare / rule-specific off-on pairs and next-line tags around corpus lines that have a fixable violation and runs the whole fix pipeline: no rule may change, or afterwards report on, a token that carried its tag when the file was read.",
        "design_ref": "DESIGN.md section 4, C11 (K11a, K11b)",
        "note": _T + "token list built directly from parser.* objects; an id-carrying vsg_on under an active bare vsg_off is unspecified by the documentation and skipped",
    },
    "C12": {
        "text": "Bounded: K12a configures real rules through the real apply_rules.configure_rules / rule_list.configure / rule.configure with one attribute present or absent (symbolic) at each of the five levels with symbolic values and proves the effective value is the one of the most specific level and, for phase and disable, that the real rule_list.check_rules and rule_list.fix (real constructor, stub rule loader) schedule both rules by exactly that value; K12b proves later-file-wins merging; K12d proves unknown or deprecated rule names (every string <=6 chars over an 8-symbol alphabet) are configuration errors at top level and in per-file sections.",
        "design_ref": "DESIGN.md section 4, C12 (K12a, K12b, K12d)",
        "note": _T + "YAML/JSON parsing, glob and $VAR expansion are outside; dictionaries are built directly",
    },
    "C13": {
        "text": "Bounded: K13a proves for 1-2 (3) stub rules with fully symbolic phase/sub-phase/disable/severity/violations, symbolic --all_phases and skipped phases, that check_rules analyses exactly the enabled rules of non-skipped phases up to the first failing phase; K13b proves the call order of rule_list.fix; K14b proves through apply_rules + main that the report after --fix is the gated report. K08b proves on every token list of <=7 (8) tokens that the indent refresh (run before phase 4 and when phase 1 is skipped) leaves the token sequence alone.",
        "design_ref": "DESIGN.md section 4, C13 (K13a, K13b, K14b)",
        "note": _T + "stub rules; at most 3 rules",
    },
    "C14": {
        "text": "Bounded: K14a renders the six output formats with the real report code for 1-2 (3) rules x 0..2 violations on symbolic lines x 4 severities (two user-defined), parses them back and proves with z3 that all are consistent projections of one violation set and that printed counts equal listed entries; K14b proves exit status 0 iff no error-severity violation and no processing error over 1-2 (3) files, and that after a plain or --fix run through the real main/apply_rules the counts printed in each file's header equal the rows listed under it and the JSON entries.",
        "design_ref": "DESIGN.md section 4, C14 (K14a, K14b)",
        "note": _T + "solution text fixed; single-digit line numbers; md5 fingerprint stubbed; file writing captured in memory",
    },
    "C16": {
        "text": "Bounded fault/crash enumeration decided symbolically: K16 runs the real apply_rules/write_vhdl_file/create_backup_file over a model file system with a symbolic fault position and kind and a symbolic crash point; z3 proves at every crash point and after every single fault that the target holds the complete original or complete fixed text with its original mode, that the temp file is gone after non-fatal failures, that the backup is faithful and that rejected files are untouched (thorough: two faults per run). K04f reads real UTF-8 / ISO-8859-1 files through read_vhdlfile with the non-ASCII byte at engine-forked offsets around the buffer boundary: every line exactly once.",
        "design_ref": "DESIGN.md section 4, C16 (K16)",
        "note": _T + "os.replace atomic; a failing call affects only its own file; umask arbitrary; whether the target is a symbolic link or has a second hard link is an arbitrary environment value; an in-place copy (shutil.copyfile/copy) truncates first; single fault per run",
    },
    "C20": {
        "text": "Bounded: K20a proves for one rule with 0..2 (3) violations on symbolic lines and every shape of the selection document that rule.fix repairs exactly the listed lines (all for 'all'), in file order; K20b proves all-rules-all == plain fix, empty selection fixes nothing, and a one-rule selection leaves the other rule untouched; L15b checks on corpus file pairs that a selection applies to every file of a run.",
        "design_ref": "DESIGN.md section 4, C20 (K20a, K20b)",
        "note": _T + "stub rules; the line-locality of real rule fixes (L20) not covered",
    },
    "C15": {
        "text": "Bounded: K14b runs the real __main__.main aggregation (jobs 1 and 2 through Pool.imap's contract) over 1-3 files with symbolic per-file outcomes and proves order of output and JSON entries; L15 is a purity step: processing a file (parse, fix, check, report) leaves every module-level and class-level mutable container of vsg.* unchanged, so the result for a file cannot depend on what a worker processed before. L15b runs two corpus files through the real config.New + apply_rules with one shared configuration object (the --jobs 1 path) under engine-forked --fix / --all_phases / --fix_only and compares the second file's report, JSON entry, exit contribution and fixed text with processing it alone; K12e proves config.New leaves nothing behind for the next call. L15's snapshot covers module-level and class-level containers and module-level instances of product classes, measured after a warm-up run so that lazily built caches do not count.",
        "design_ref": "DESIGN.md section 4 C15",
        "note": _T + "OS scheduling, pickling and real process pools are outside; imap = lazy, in submission order",
    },
    "C17": {
        "text": "Bounded: K17 sets, for each non-deprecated rule (80 per quick run, all in thorough), every configurable attribute to a symbolic value of its type (yes/no options also as YAML booleans), emits the configuration, configures a fresh rule from it and proves the second emission identical and the effective values equal; K17b does the whole rule list under styles none/jcl/indent_only; K17c pushes strings over a 14-symbol alphabet of serialiser-special characters through the real json.dump of --output_configuration and the real yaml reader. K17b additionally writes one yes/no option per distinct option name as True / False / 'yes' / 'no' and proves the effective attribute is identical after the emitted-configuration round trip.",
        "design_ref": "DESIGN.md section 4 C17",
        "note": _T + "JSON/YAML replaced by a structural copy with JSON's coercions; behaviour on VHDL input under the emitted configuration (L17) not covered",
    },
    "C18": {
        "text": "Bounded: K18a proves every token-index lookup equals a linear scan for all token lists of <=5 (6) tokens over 7 kinds; K18b proves extract.tokens.New / extract_tokens record start, end and line of every (sub-)region; L18 proves on corpus explorations that the index equals a recomputed one whenever a rule obtains its tokens of interest after a change and that every region of interest is the slice it claims to be. K13b proves the index is rebuilt exactly once after the structural phase.",
        "design_ref": "DESIGN.md section 4 C18",
        "note": _T + "get_token_pair_indexes only through the real rules",
    },
    "C19": {
        "text": "Bounded: K19b pushes every sequence of <=3 (4) words of a structural vocabulary through the real vhdlFile constructor: accepted or ClassifyError, nothing else; L19 runs parse, full fix, check and report over pinned and random corpus explorations under 18 configurations (default, jcl, indent_only, flipA-H, option sweeps flipI0-4 and flipJ0-1 derived from the rules own source); every other harness charges escaping exceptions to C19 as well. K19c: for every regular expression compiled at module level in vsg and every unbounded repeat in it, z3 proves (path-counting semantics, |prefix|<=2, |w|<=3) that no string is consumed by the repeat in two ways while prefix+w+w still matches - i.e. no exponential backtracking; a model is replayed by timing the real re.fullmatch on the pumped string.",
        "design_ref": "DESIGN.md section 4 C19",
        "note": _T + "termination is guarded by per-path event/time budgets (unwinding assertion), not proved",
    },
}
