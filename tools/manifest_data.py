TECHNIQUE = "bounded symbolic execution of the real Python source (own engine sx: proxies + import hook), z3 decides branches and per-path VCs, concrete replay of models"
SOURCE_COMMITS = []
NOTES = "All checks go through ./check <ID>; exit 0 held / 1 VIOLATION / 3 harness error. Known findings in known_findings.json. See DESIGN.md."
NOT_APPLICABLE = {}
CLAIMS = {
    "C04": {
        "text": "Bounded: for every string of <=2 (quick) / <=3 (thorough) characters over U+0000..U+00FF the real tokens.create regroups characters losslessly; z3 decides each branch of the nine tokenizer passes. Larger inputs are outside the claim.",
        "design_ref": "DESIGN.md section 4, C04",
        "note": "trusts z3, CPython, and the sx proxies (differentially self-tested against CPython on every run); lines contain no CR/LF",
    },
}
