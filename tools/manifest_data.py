TECHNIQUE = "bounded symbolic execution of the real Python source (own engine sx: proxy values + AST import hook), z3 decides every branch and every per-path verification condition, concrete replay of solver models on the un-instrumented code"
SOURCE_COMMITS = []
NOTES = ("All checks go through ./check <ID> --tier quick|thorough; exit 0 held (KNOWN-FINDING lines for listed findings) / 1 with VIOLATION line / 3 harness error "
         "(non-reproducing model, engine self-test failure, inconclusive share above floor). Known and fixed findings: known_findings.json. Seeded changes used to test the checks: seeded/. See DESIGN.md.")
NOT_APPLICABLE = {}
_T = "trusts z3, CPython and the sx proxies (differentially self-tested against CPython at the start of every run); "
CLAIMS = {
    "C03": {
        "text": "Bounded: K03 runs the real rule_list.fix / rule.fix on 1-2 (3) stub rules whose phase, sub-phase, disable, fixable, severity type and violation count are symbolic, with symbolic --fix_phase and skip_phase; z3 proves per path that _fix_violation runs exactly for enabled, fixable, error-severity rules of phases 1..N and that nothing else reaches the file. Rule bodies (what a fix does to tokens) are outside this check.",
        "design_ref": "DESIGN.md section 4, C03 (K03)",
        "note": _T + "rules are StubRule subclasses of the real vsg.rule.Rule; the effect classification of real rule bodies (KB03/L03) is not built yet",
    },
    "C04": {
        "text": "Bounded: K04a proves ''.join(tokens.create(s)) == s for every string of <=2 (quick) / <=3 (thorough) characters over U+0000..U+00FF through the nine real tokenizer passes; K16 proves on a model file system that apply_rules mutates nothing without --fix and never touches the target when no rule fixed anything.",
        "design_ref": "DESIGN.md section 4, C04 (K04a, K04e=K16)",
        "note": _T + "lines contain no CR/LF; file system is a model; parse/emit of whole files (L04) not built yet",
    },
    "C06": {
        "text": "Bounded: K06 runs the real rule_list.check_rules twice (clear_violations in between) on 2-3 stub rules with symbolic metadata and symbolic violation lines; z3 proves repeatability, that the token list and file are untouched, and that a rule's report depends only on its own inputs (disabling removes exactly its violations).",
        "design_ref": "DESIGN.md section 4, C06 (K06)",
        "note": _T + "state shared between real rule bodies (L06) not covered",
    },
    "C11": {
        "text": "Bounded: K11a drives the real set_code_tags/code_tags/has_code_tag/add_violation state machine over every sequence of <=4 (5) lines from {code, vsg_off, vsg_on, vsg_disable_next_line, comment, blank} with symbolic rule ids and compares, by z3, with a reference interpreter of docs/code_tags.rst; K11b does the same for the tag text (every tail of <=3 (4) characters over a 7-symbol alphabet).",
        "design_ref": "DESIGN.md section 4, C11 (K11a, K11b)",
        "note": _T + "token list built directly from parser.* objects; an id-carrying vsg_on under an active bare vsg_off is unspecified by the documentation and skipped",
    },
    "C12": {
        "text": "Bounded: K12a configures real rules through the real apply_rules.configure_rules / rule_list.configure / rule.configure with one attribute present or absent (symbolic) at each of the five levels with symbolic values and proves the effective value is the one of the most specific level; K12b proves later-file-wins merging; K12d proves unknown or deprecated rule names (every string <=6 chars over an 8-symbol alphabet) are configuration errors at top level and in per-file sections.",
        "design_ref": "DESIGN.md section 4, C12 (K12a, K12b, K12d)",
        "note": _T + "YAML/JSON parsing, glob and $VAR expansion are outside; dictionaries are built directly",
    },
    "C13": {
        "text": "Bounded: K13a proves for 1-2 (3) stub rules with fully symbolic phase/sub-phase/disable/severity/violations, symbolic --all_phases and skipped phases, that check_rules analyses exactly the enabled rules of non-skipped phases up to the first failing phase; K13b proves the call order of rule_list.fix; K14b proves through apply_rules + main that the report after --fix is the gated report.",
        "design_ref": "DESIGN.md section 4, C13 (K13a, K13b, K14b)",
        "note": _T + "stub rules; at most 3 rules",
    },
    "C14": {
        "text": "Bounded: K14a renders the six output formats with the real report code for 1-2 (3) rules x 0..2 violations on symbolic lines x 4 severities (two user-defined), parses them back and proves with z3 that all are consistent projections of one violation set and that printed counts equal listed entries; K14b proves exit status 0 iff no error-severity violation and no processing error over 1-2 (3) files.",
        "design_ref": "DESIGN.md section 4, C14 (K14a, K14b)",
        "note": _T + "solution text fixed; single-digit line numbers; md5 fingerprint stubbed; file writing captured in memory",
    },
    "C16": {
        "text": "Bounded fault/crash enumeration decided symbolically: K16 runs the real apply_rules/write_vhdl_file/create_backup_file over a model file system with a symbolic fault position and kind and a symbolic crash point; z3 proves at every crash point and after every single fault that the target holds the complete original or complete fixed text with its original mode, that the temp file is gone after non-fatal failures, that the backup is faithful and that rejected files are untouched.",
        "design_ref": "DESIGN.md section 4, C16 (K16)",
        "note": _T + "os.replace atomic; a failing call affects only its own file; umask arbitrary; single fault per run",
    },
    "C20": {
        "text": "Bounded: K20a proves for one rule with 0..2 (3) violations on symbolic lines and every shape of the selection document that rule.fix repairs exactly the listed lines (all for 'all'), in file order; K20b proves all-rules-all == plain fix, empty selection fixes nothing, and a one-rule selection leaves the other rule untouched.",
        "design_ref": "DESIGN.md section 4, C20 (K20a, K20b)",
        "note": _T + "stub rules; the line-locality of real rule fixes (L20) not covered",
    },
}
