#!/usr/bin/env python3
"""tools/survey.py [pattern] - concrete calibration run of the L-family oracles over the fixture corpus (not a check;
used to triage oracle strictness before the symbolic harness is registered)."""
import sys, os, json, time, warnings, collections, multiprocessing, traceback
warnings.simplefilter("ignore")
ROOT = os.path.dirname(os.path.dirname(os.path.abspath(__file__)))
sys.path.insert(0, ROOT)
from sx import instrument, core
instrument.install()
from harnesses import lfam

def one(name):
    out = {"name": name, "failed": [], "exc": None, "events": 0}
    try:
        eng = core.ConcreteEngine({})
        eng.start_path()
        lines, slines, conf, oFile, rl = lfam.build(eng, name, None, os.environ.get("SURVEY_CONF", "default"))
        mon = lfam.Monitor(oFile, rl)
        rl.fix()
        out["events"] = len(mon.events)
        for n, c in mon.clauses:
            c = core.f_of(c)
            if core.is_z3(c):
                c = core._simp(c)
            if c is not True:
                d = getattr(mon, "last_structure_detail", None) if "structure_rule_diff" in n else None
                out["failed"].append((n, d))
    except Exception as e:
        tb = traceback.extract_tb(e.__traceback__)
        out["exc"] = "%s: %s @ %s" % (type(e).__name__, str(e)[:100], ["%s:%d" % (f.filename.rsplit("/",1)[-1], f.lineno) for f in tb][-3:])
    return out

if __name__ == "__main__":
    pat = sys.argv[1] if len(sys.argv) > 1 else ""
    names = sorted(f for f in os.listdir(os.path.join(ROOT, "corpus", "fixtures")) if pat in f)
    names = ["fixtures/" + n for n in names]
    t0 = time.time()
    agg = collections.Counter(); ex = collections.defaultdict(list); exc = collections.Counter(); excx = {}
    with multiprocessing.get_context("fork").Pool(14) as pl:
        for r in pl.imap_unordered(one, names, chunksize=4):
            if r["exc"]:
                exc[r["exc"]] += 1; excx.setdefault(r["exc"], r["name"])
            for n, d in r["failed"]:
                agg[n] += 1
                if len(ex[n]) < 3: ex[n].append((r["name"], d))
    print("files", len(names), "time", round(time.time() - t0, 1))
    for k, v in sorted(agg.items(), key=lambda kv: -kv[1]):
        print(v, k, ex[k])
    print("--- exceptions")
    for k, v in exc.most_common(): print(v, k, excx[k])
