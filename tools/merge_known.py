#!/usr/bin/env python3
"""tools/merge_known.py <calib.json> - merges reviewed calibration output into known_findings.json (status=known, origin=calibration).
Signatures follow sx.main: L<nn>:vc:<clause>|<fixture basename>  and  L<nn>:exception:<Type>@<site>."""
import json, os, sys
ROOT = os.path.dirname(os.path.dirname(os.path.abspath(__file__)))
cal = []
for a in sys.argv[1:]:
    cal.extend(json.load(open(a)))
p = os.path.join(ROOT, "known_findings.json")
d = json.load(open(p))
F = [f for f in d["findings"] if f.get("origin") != "calibration"]
have = set(f["signature"] for f in F)
CATEGORY = {
    "C01:structure_rule_diff_is_documented_kind": "a structure rule added/removed code tokens of an undocumented kind (see DESIGN.md section 5: nested regions of interest in a protected type body duplicate 'body;')",
    "C02:comment_followed_by_line_break": "a line-joining rule left a '--' comment without its line break: the comment swallows the code that followed",
    "C02:comments_survive": "a comment/pragma token was lost or altered by a rule that is not documented to remove comments",
    "C07:unreported_line_untouched": "a layout/case rule changed a line it did not report",
    "C07:reported_line_changed": "a layout/case rule reported a line that its fix left unchanged",
    "C08:reparse_same_token_count": "the model after fixing holds tokens (e.g. two adjacent whitespace tokens) that a fresh parse of the written text merges/splits differently",
    "C08:reparse_same_roles": "a token created by a fix carries a class the classifier does not assign to the same text",
    "C08:reparse_same_values": "token text of model and re-parsed file differ",
    "C08:reparse_same_indent": "indent level of a token differs between the model after fixing and a fresh parse of the written text",
    "C08:report_after_fix_equals_fresh_check": "the violations of the model after fixing differ from those of a fresh check of the written text",
    "C08:fixed_text_is_accepted": "the text written by --fix is rejected by VSG's own parser",
    "C09:fixed_text_is_accepted": "the text written by --fix is rejected by VSG's own parser",
    "C09:second_fix_changes_nothing": "a second --fix changes the output of the first (slow convergence or oscillation)",
    "C10:second_fix_changes_nothing": "the rule's fix applied twice in a row differs from applying it once",
    "C18:token_map_matches_token_list": "the token index is stale when a rule obtains its tokens of interest",
    "C18:region_of_interest_is_slice": "a region of interest does not sit at its recorded start index",
    "C06:independent_of_other_rules": "a rule reports differently alone than inside the full rule set",
    "C06:analysis_leaves_tokens_untouched": "analysis changed token attributes",
    "C06:analysis_leaves_token_index_untouched": "analysis changed the token index",
    "C06:repeatable": "a second check reports differently",
}
n = 0
for e in cal:
    prop = e["prop"]
    h = "L" + prop[1:]
    fx = os.path.basename(e["fixture"])
    if "exception" in e:
        sig = "%s:exception:%s" % (h, e["exception"])
        what = "%s escapes on %s (%s) under configuration %s" % (e["exception"], fx, e.get("msg", ""), e["conf"])
    else:
        sig = "%s:vc:%s|%s" % (h, e["clause"], fx)
        base = e["clause"].split("@")[0]
        rule = e["clause"].split("@")[1] if "@" in e["clause"] else ""
        what = "%s%s on %s under configuration %s" % (CATEGORY.get(base, base), (" [" + rule + "]") if rule else "", fx, e["conf"])
    if sig in have:
        continue
    have.add(sig)
    F.append({"status": "known", "property": prop, "harness": h, "signature": sig, "what": what, "origin": "calibration"})
    n += 1
d["findings"] = F
json.dump(d, open(p, "w"), indent=1)
print("added", n, "calibration entries; total", len(F))
