#!/usr/bin/env python3
"""tools/survey2.py <PROP> [conf] [pattern] - concrete calibration of lfam.pipeline/purity over every fixture (not a check)."""
import sys, os, time, warnings, collections, multiprocessing, traceback
warnings.simplefilter("ignore")
ROOT = os.path.dirname(os.path.dirname(os.path.abspath(__file__)))
sys.path.insert(0, ROOT)
from sx import instrument, core
instrument.install()
from harnesses import lfam
PROP = sys.argv[1]; CONF = sys.argv[2] if len(sys.argv) > 2 else "default"; PAT = sys.argv[3] if len(sys.argv) > 3 else ""

def one(name):
    out = {"name": name, "failed": [], "exc": None}
    try:
        eng = core.ConcreteEngine({}); eng.start_path()
        p = {"prop": PROP, "fixture": name, "window": None, "conf": CONF}
        cl = lfam.purity(eng, p) if PROP == "C15" else lfam.pipeline(eng, p)
        for n, c in cl:
            c = core.f_of(c)
            if core.is_z3(c): c = core._simp(c)
            if c is not True and n.startswith(PROP): out["failed"].append(n)
    except Exception as e:
        tb = traceback.extract_tb(e.__traceback__)
        out["exc"] = "%s: %s @ %s" % (type(e).__name__, str(e)[:80], ["%s:%d" % (f.filename.rsplit("/",1)[-1], f.lineno) for f in tb][-3:])
    return out

if __name__ == "__main__":
    names = ["fixtures/" + n for n in sorted(os.listdir(os.path.join(ROOT, "corpus", "fixtures"))) if PAT in n]
    t0 = time.time(); agg = collections.Counter(); ex = collections.defaultdict(list); exc = collections.Counter(); excx = {}
    with multiprocessing.get_context("fork").Pool(12) as pl:
        ALL = []
        for r in pl.imap_unordered(one, names, chunksize=4):
            ALL.append(r)
            if r["exc"]: exc[r["exc"]] += 1; excx.setdefault(r["exc"], r["name"])
            for n in r["failed"]:
                agg[n] += 1
                if len(ex[n]) < 4: ex[n].append(r["name"].replace("fixtures/","").replace("_test_input.vhd",""))
    print(PROP, CONF, "files", len(names), "time", round(time.time() - t0, 1))
    for k, v in sorted(agg.items(), key=lambda kv: -kv[1]): print(v, k, ex[k])
    for k, v in exc.most_common(): print("EXC", v, k, excx[k])
    if os.environ.get("SURVEY_JSON"):
        import json
        for r in ALL:
            if r["failed"] or r["exc"]:
                print("JSON " + json.dumps(r))
