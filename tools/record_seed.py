#!/usr/bin/env python3
"""tools/record_seed.py <seed-id> <property> <detected_by|-> <note>  - writes seeded/<id>/meta.json from the agent's meta + confirm.log"""
import json, os, sys
sid, prop, det, note = sys.argv[1:5]
d = os.path.join("/verif/seeded", sid)
agent = {}
try:
    agent = json.load(open(os.path.join(d, "meta.agent.json")))
except Exception:
    pass
log = open(os.path.join(d, "confirm.log")).read().strip().splitlines()
res = [l for l in log if l.startswith("RESULT")]
meta = {
    "id": sid, "property": prop,
    "summary": agent.get("summary"), "needs": agent.get("needs"), "files_changed": agent.get("files_changed"),
    "origin": "written by an independent sub-agent that saw only the property text and a scratch worktree of /repo (nothing from /verif)",
    "confirmed_by_me": {"how": "tools/verify_seed.sh: demo.py with the change / without it; full pytest suite with the change (PYTHONWARNINGS=ignore, timestamp tests serially)", "result": res[-1] if res else None},
    "base_commit": os.environ.get("SEED_BASE", "0174624 (pinned snapshot)"),
    "detected_by": None if det == "-" else det.split(","),
    "detection_note": note,
    "how_to_run": "git -C /repo apply /verif/seeded/%s/patch.diff && (cd /verif && ./check %s --tier quick); git -C /repo checkout -- ." % (sid, prop),
}
json.dump(meta, open(os.path.join(d, "meta.json"), "w"), indent=1)
os.remove(os.path.join(d, "meta.agent.json")) if os.path.exists(os.path.join(d, "meta.agent.json")) else None
print(json.dumps(meta, indent=1)[:600])
