#!/usr/bin/env python3
"""tools/collect_findings.py <dir with sweep logs> [--merge]  - list VIOLATION signatures found by sweep runs on the unchanged tree
(with one input each) for review; with --merge append them to known_findings.json as status=known, origin=sweep."""
import json, os, re, sys
ROOT = os.path.dirname(os.path.dirname(os.path.abspath(__file__)))
d = sys.argv[1]
found = {}
for fn in sorted(os.listdir(d)):
    if not fn.endswith(".log"):
        continue
    prop = fn.split("_")[1]
    for line in open(os.path.join(d, fn), errors="replace"):
        m = re.search(r"signature=(\S+) paths=(\d+) input=(.*?) detail=", line)
        if m:
            sig, n, inp = m.group(1), int(m.group(2)), m.group(3)
            found.setdefault(sig, {"prop": prop, "n": 0, "input": inp[:400], "logs": []})
            found[sig]["n"] += n
            found[sig]["logs"].append(fn)
kp = os.path.join(ROOT, "known_findings.json")
known = json.load(open(kp))
have = set(f["signature"] for f in known["findings"])
new = {s: v for s, v in found.items() if s not in have}
for s, v in sorted(new.items()):
    print(v["prop"], s, "n=%d" % v["n"], v["logs"][:3])
    print("     ", v["input"][:300])
print(len(found), "signatures in logs,", len(new), "not yet known")
CATEGORY = {
    "C01:structure_rule_diff_is_documented_kind": "a structure rule added/removed code tokens of an undocumented kind",
    "C01:code_tokens_same_objects_outside_phase1": "a non-structural rule replaced, dropped or merged code tokens",
    "C02:comment_followed_by_line_break": "a line-joining rule left a '--' comment without its line break: the comment swallows the code that followed",
    "C02:comments_survive": "a comment/pragma token was lost, duplicated or altered by a rule that is not documented to remove comments",
    "C03:phase3_rule_changes_layout_only": "a blank-line rule changed more than layout",
    "C07:unreported_line_untouched": "a layout/case rule changed a line it did not report",
    "C07:reported_line_changed": "a layout/case rule reported a line that its fix left unchanged",
    "C08:reparse_same_token_count": "the model after fixing holds tokens that a fresh parse of the written text merges/splits differently",
    "C08:reparse_same_roles": "a token created or kept by a fix carries a class the classifier does not assign to the same text",
    "C08:reparse_same_values": "token text of model and re-parsed file differ",
    "C08:reparse_same_indent": "indent level of a token differs between the model after fixing and a fresh parse of the written text",
    "C08:report_after_fix_equals_fresh_check": "the violations of the model after fixing differ from those of a fresh check of the written text",
    "C08:fixed_text_is_accepted": "the text written by --fix is rejected by VSG's own parser",
    "C09:fixed_text_is_accepted": "the text written by --fix is rejected by VSG's own parser",
    "C09:second_fix_changes_nothing": "a second --fix changes the output of the first (slow convergence or oscillation)",
    "C10:second_fix_changes_nothing": "the rule's fix applied twice in a row differs from applying it once",
    "C18:token_map_matches_token_list": "the token index is stale when a rule obtains its tokens of interest",
    "C18:region_of_interest_is_slice": "a region of interest does not sit at its recorded start index",
    "C06:independent_of_other_rules": "a rule reports differently alone than inside the full rule set",
    "C11:violation_reported_on_tagged_token": "a rule reports on a line that a code tag switched off for it (tokens re-created by a phase-1 fix lose their code tags)",
    "C11:tagged_token_untouched_by_its_rule": "a rule fixes a line that a code tag switched off for it (tokens re-created by a phase-1 fix lose their code tags)",
}


def describe(sig, v):
    m = re.search(r":vc:(C\d\d:[a-z_0-9]+)(?:@([a-z_0-9]+))?", sig)
    if m:
        cat = CATEGORY.get(m.group(1), m.group(1))
        rule = " [%s]" % m.group(2) if m.group(2) else ""
        where = "a layout variant (line breaks / comments inserted by the check)" if "layout-variant" in sig else "the corpus fixture"
        return "%s%s on %s; first input: %s" % (cat, rule, where, v["input"][:300])
    m = re.search(r":exception:(\w+)@(.*)$", sig)
    if m:
        return "%s escapes from %s (delimited comments or line breaks at positions the classifier / extractors do not expect); first input: %s" % (m.group(1), m.group(2), v["input"][:300])
    return "found by a sweep of the checks over the unchanged tree; first input: %s" % v["input"][:300]


if "--merge" in sys.argv:
    for s, v in sorted(new.items()):
        known["findings"].append({"status": "known", "property": v["prop"], "harness": s.split(":")[0], "signature": s, "origin": "sweep",
                                  "what": describe(s, v)})
    json.dump(known, open(kp, "w"), indent=1)
    print("merged", len(new))
