#!/usr/bin/env python3
"""tools/collect_findings.py <dir with sweep logs> [--merge]  - list VIOLATION signatures found by sweep runs on the unchanged tree
(with one input each) for review; with --merge append them to known_findings.json as status=known, origin=sweep."""
import json, os, re, sys
ROOT = os.path.dirname(os.path.dirname(os.path.abspath(__file__)))
d = sys.argv[1]
found = {}
for fn in sorted(os.listdir(d)):
    if not fn.endswith(".log"):
        continue
    prop = fn.split("_")[1]
    for line in open(os.path.join(d, fn), errors="replace"):
        m = re.search(r"signature=(\S+) paths=(\d+) input=(.*?) detail=", line)
        if m:
            sig, n, inp = m.group(1), int(m.group(2)), m.group(3)
            found.setdefault(sig, {"prop": prop, "n": 0, "input": inp[:400], "logs": []})
            found[sig]["n"] += n
            found[sig]["logs"].append(fn)
kp = os.path.join(ROOT, "known_findings.json")
known = json.load(open(kp))
have = set(f["signature"] for f in known["findings"])
new = {s: v for s, v in found.items() if s not in have}
for s, v in sorted(new.items()):
    print(v["prop"], s, "n=%d" % v["n"], v["logs"][:3])
    print("     ", v["input"][:300])
print(len(found), "signatures in logs,", len(new), "not yet known")
if "--merge" in sys.argv:
    for s, v in sorted(new.items()):
        known["findings"].append({"status": "known", "property": v["prop"], "harness": s.split(":")[0], "signature": s, "origin": "sweep",
                                  "what": "found by a sweep of the checks over the unchanged tree (layout variation / broader selection); first input: %s" % v["input"][:300]})
    json.dump(known, open(kp, "w"), indent=1)
    print("merged", len(new))
