#!/bin/bash
# tools/sweep.sh <tier> "<seeds>" "<props>"  - run checks sequentially without writing evidence; logs under sweep_logs/
tier=$1; seeds=$2; props=$3
mkdir -p sweep_logs
for s in $seeds; do for p in $props; do
  VERIF_SEED=$s timeout 5400 ./check $p --tier $tier --no-evidence ${SWEEP_JOBS:+--jobs $SWEEP_JOBS} > sweep_logs/${tier}_${p}_s$s.log 2>&1
  echo "$tier $p seed=$s rc=$? $(grep -c '^VIOLATION' sweep_logs/${tier}_${p}_s$s.log) violations $(grep -c '^HARNESS' sweep_logs/${tier}_${p}_s$s.log) harness-errors $(grep -E 'tier=' sweep_logs/${tier}_${p}_s$s.log | sed 's/.*, //')"
done; done
