#!/usr/bin/env python3
"""tools/calibrate.py [confs] - concrete run of every L-family oracle over every corpus fixture x configuration (window=None,
no layout variation). Output: JSON list of failing (property, clause, fixture, configuration) and escaping exceptions.
Used to enumerate the known-finding entries for the plain-corpus explorations (reviewed, then merged by tools/merge_known.py)."""
import sys, os, json, time, warnings, multiprocessing, traceback
warnings.simplefilter("ignore")
ROOT = os.path.dirname(os.path.dirname(os.path.abspath(__file__)))
sys.path.insert(0, ROOT)
from sx import instrument, core
instrument.install()
from harnesses import lfam
CONFS = sys.argv[1].split(",") if len(sys.argv) > 1 else ["default", "jcl", "flipA", "flipB", "flipC", "flipD", "flipE"]
PROPS = ["C01", "C06", "C08", "C09", "C15"]  # C01's pass evaluates the monitor clauses of C01 C02 C03 C07 C10 C18 together (see below)

def one(args):
    name, conf = args
    out = []
    for prop in PROPS:
        try:
            eng = core.ConcreteEngine({}); eng.start_path()
            p = {"prop": prop, "fixture": name, "window": None, "conf": conf}
            if prop == "C15":
                cl = lfam.purity(eng, p)
            elif prop == "C01":
                lines, slines, cf, oFile, rl = lfam.build(eng, name, None, conf)
                mon = lfam.Monitor(oFile, rl)
                rl.fix()
                mon.check_token_map(rl.rules[0])
                cl = mon.clauses
            else:
                cl = lfam.pipeline(eng, p)
            for n, c in cl:
                c = core.f_of(c)
                if core.is_z3(c): c = core._simp(c)
                if c is not True:
                    out.append({"prop": n[:3], "clause": n, "fixture": name, "conf": conf})
        except Exception as e:
            tb = traceback.extract_tb(e.__traceback__)
            fr = [f for f in tb if f.filename.startswith(instrument.REPO.rstrip("/") + "/")]
            site = "%s:%s" % (fr[-1].filename.replace(instrument.REPO.rstrip("/") + "/", ""), fr[-1].name) if fr else "harness"
            out.append({"prop": prop, "exception": "%s@%s" % (type(e).__name__, site), "msg": str(e)[:100], "fixture": name, "conf": conf})
    return out

if __name__ == "__main__":
    names = ["fixtures/" + n for n in sorted(os.listdir(os.path.join(ROOT, "corpus", "fixtures")))]
    work = [(n, c) for c in CONFS for n in names]
    res = []
    t0 = time.time()
    with multiprocessing.get_context("fork").Pool(int(os.environ.get("CALIB_JOBS", "12"))) as pl:
        for i, r in enumerate(pl.imap_unordered(one, work, chunksize=8)):
            res.extend(r)
            if i % 500 == 0: sys.stderr.write("%d/%d %.0fs\n" % (i, len(work), time.time() - t0))
    json.dump(res, sys.stdout, indent=0)
    sys.stderr.write("done %d findings in %.0fs\n" % (len(res), time.time() - t0))
