#!/bin/bash
# tools/verify_seed.sh <seed-id> <worktree>   - confirm a seeded change: demo fails with it / passes without it / whole test suite passes with it
# writes /verif/seeded/<seed-id>/{patch.diff,demo.py,meta.json,confirm.log}
set -u
ID=$1; WT=$2
OUT=/verif/seeded/$ID
mkdir -p $OUT
cd $WT || exit 2
git diff -- vsg > $OUT/patch.diff
cp _seed/demo.py $OUT/demo.py
cp _seed/meta.json $OUT/meta.agent.json 2>/dev/null
export PYTHONWARNINGS=ignore
{
echo "== demo WITH change"; /venv/bin/python _seed/demo.py > /tmp/seed_$ID.with 2>&1; RC_WITH=$?; tail -5 /tmp/seed_$ID.with; echo "rc=$RC_WITH"
git checkout -- vsg
echo "== demo WITHOUT change"; /venv/bin/python _seed/demo.py > /tmp/seed_$ID.without 2>&1; RC_WITHOUT=$?; tail -3 /tmp/seed_$ID.without; echo "rc=$RC_WITHOUT"
git apply $OUT/patch.diff
echo "== test suite WITH change"
/venv/bin/python -m pytest -q -p no:cacheprovider --timeout=900 -n 6 --deselect tests/vsg/file_timestamp/test_timestamp.py 2>&1 | tail -3 > /tmp/seed_$ID.suite; cat /tmp/seed_$ID.suite
/venv/bin/python -m pytest -q -p no:cacheprovider -n 0 tests/vsg/file_timestamp/test_timestamp.py 2>&1 | tail -1 > /tmp/seed_$ID.ts; cat /tmp/seed_$ID.ts
echo "RESULT id=$ID demo_with_rc=$RC_WITH demo_without_rc=$RC_WITHOUT suite='$(tail -1 /tmp/seed_$ID.suite)' timestamp='$(cat /tmp/seed_$ID.ts)'"
} > $OUT/confirm.log 2>&1
rm -f /tmp/seed_$ID.* $WT/.coverage*
tail -1 $OUT/confirm.log
