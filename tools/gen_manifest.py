#!/usr/bin/env python3
"""Regenerates /verif/MANIFEST.json from tools/manifest_data.py (claims) - keeps the file valid at all times."""
import json, os, sys
ROOT = os.path.dirname(os.path.dirname(os.path.abspath(__file__)))
sys.path.insert(0, os.path.join(ROOT, "tools"))
import manifest_data as D

checks = []
for pid in sorted(D.CLAIMS):
    c = D.CLAIMS[pid]
    checks.append({
        "property_id": pid,
        "quick_cmd": "./check %s --tier quick" % pid,
        "thorough_cmd": "./check %s --tier thorough" % pid,
        "evidence_file": "evidence/%s.json" % pid,
        "replay_cmd_template": "./check %s --replay {path}" % pid,
        "engine": "sx",
        "level_claimed": {"category": "other", "text": c["text"], "design_ref": c["design_ref"]},
        "level_note": c["note"],
        "technique": c.get("technique", D.TECHNIQUE),
    })
props = [json.loads(l)["id"] for l in open(os.path.join(ROOT, "properties.jsonl"))]
na = [{"property_id": p, "reason": D.NOT_APPLICABLE.get(p, "no harness built yet in this round; planned in DESIGN.md section 4")} for p in props if p not in D.CLAIMS]
m = {
    "version": 1,
    "setup_cmd": "./setup.sh",
    "hooks": {"guard": "VSG_VERIF", "enable": "none needed: the import hook in /verif/sx/instrument.py instruments vsg at load time; /repo carries no hook code",
              "baseline_off_cmd": "cd /repo && /venv/bin/python -m pytest -q -p no:cacheprovider --timeout=900 -x -q", "source_commits": D.SOURCE_COMMITS, "add_only": True},
    "engines": [{"name": "sx", "path": "sx/", "serves_properties": sorted(D.CLAIMS), "kind_free_text": "own bounded symbolic executor for Python (proxy values + AST import hook over /repo/vsg, z3 decides every branch and every per-path verification condition, DFS by re-execution, sharded over a process pool); counterexamples replayed concretely on the un-instrumented code"}],
    "checks": checks,
    "notes": D.NOTES,
    "not_applicable": na,
}
json.dump(m, open(os.path.join(ROOT, "MANIFEST.json"), "w"), indent=1)
print("MANIFEST.json: %d checks, %d not_applicable" % (len(checks), len(na)))
