#!/usr/bin/env python3
"""tools/gen_known.py - runs the concrete calibration survey for the L-family oracles over all fixtures x configurations and
prints candidate known-finding entries (JSON). The result is reviewed and merged into known_findings.json by hand (never at check time)."""
import json, subprocess, sys, os, re
ROOT = os.path.dirname(os.path.dirname(os.path.abspath(__file__)))
props = sys.argv[1].split(",") if len(sys.argv) > 1 else ["C01", "C02", "C03", "C07", "C08", "C09", "C10", "C18", "C15", "C06"]
confs = ["default", "jcl", "flipA", "flipB"]
out = []
for pr in props:
    for cf in confs:
        env = dict(os.environ, SURVEY_JSON="1")
        r = subprocess.run([os.path.join(ROOT, ".venv/bin/python"), os.path.join(ROOT, "tools/survey2.py"), pr, cf], capture_output=True, text=True, env=env)
        for line in r.stdout.splitlines():
            if line.startswith("JSON "):
                d = json.loads(line[5:]); d["prop"] = pr; d["conf"] = cf; out.append(d)
        sys.stderr.write("%s %s done\n" % (pr, cf))
json.dump(out, sys.stdout, indent=0)
